#!/usr/bin/env python3
"""setup_cmd: build the harness variants from /repo's working tree (offline, files on disk only)."""
import os
import sys
sys.path.insert(0, os.path.dirname(os.path.abspath(__file__)))
import common
from concurrent.futures import ThreadPoolExecutor


def main():
    variants = ["plain", "asan", "tsan", "flexgen", "smallcap"]
    with ThreadPoolExecutor(max_workers=5) as ex:
        for v, p in zip(variants, ex.map(common.build, variants)):
            print("built", v, p)
    return 0


common.main_wrapper(main)
