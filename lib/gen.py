"""Seeded generator of Theo programs: AST (the input of TheoSem.tla) + source text in two renderings.

* canon: one statement per line, no user macros (the +/- sugar is allowed), optionally split over included files:
         positions of every statement / END line are recorded, every stepping stop is compared (C07).
* free : arbitrary layout (several statements per line, constructs split across lines, comments, random keyword
         spellings), user macros from a fixed library whose documented meaning is applied here to obtain the core
         AST, random split of the token stream over included files; only the final state is compared (C01).

The generator is not an oracle: expected values come from TLC evaluating TheoSem on the AST.
"""
import random

KW = {
    "PROGRAM": ["PROGRAM", "Program", "program", "PROG", "Prog", "prog"], "IN": ["IN", "In", "in"],
    "OUT": ["OUT", "Out", "out"], "DO": ["DO", "do", "Do"], "END": ["END", "End", "end"],
    "LOOP": ["LOOP", "Loop", "loop"], "WHILE": ["WHILE", "While", "while"], "GOTO": ["GOTO", "Goto", "goto"],
    "IF": ["IF", "If", "if"], "THEN": ["THEN", "Then", "then"], "STOP": ["STOP", "Stop", "stop"],
    "RUN": ["RUN", "Run", "run"], "WITH": ["WITH", "With", "with"], "INCLUDE": ["INCLUDE", "Include", "include"],
}

MACRO_LIB = [
    # (definition text, one line each so that definition sites are known)
    'DEFINE PRIO 30 <ID> ( <ARGS> ) AS RUN $0 WITH $1 END END DEFINE',
    'DEFINE PRIO 10 <V> ADD <V> AS RUN add WITH $0 , $1 END END DEFINE',
    'DEFINE PRIO 20 <V> MUL <V> AS RUN mul WITH $0 , $1 END END DEFINE',
    'DEFINE IF <V> THEN <P> ELSE <P> END AS #0 := 0 ; #1 := 1 ; #2 := $0 ; LOOP #2 DO #0 := 1 ; #1 := 0 END ; LOOP #0 DO $1 END ; LOOP #1 DO $2 END END DEFINE',
    'DEFINE REPEAT <INT> TIMES <P> END AS #0 := $0 ; LOOP #0 DO $1 END END DEFINE',
    'DEFINE SKIP AS skip_ := 0 END DEFINE',
    # a loop over a temporary that is assigned inside the body: the iteration count is fixed at entry all the same
    'DEFINE DOUBLE <ID> AS #0 := $0 ; LOOP #0 DO #0 := 0 ; $0 := $0 + 1 END END DEFINE',
]
PRELUDE = [
    {"name": "add", "params": ["a", "b"], "out": "a", "hasout": True,
     "body": [{"k": "loop", "id": "P1", "x": "b", "body": [{"k": "assign", "x": "a", "v": {"k": "inc", "x": "a", "c": 1}, "labels": []}], "labels": []}]},
    {"name": "mul", "params": ["a", "b"], "out": "r", "hasout": True,
     "body": [{"k": "loop", "id": "P2", "x": "b", "body": [{"k": "assign", "x": "r", "v": {"k": "call", "f": "add", "args": [{"k": "var", "x": "r"}, {"k": "var", "x": "a"}]}, "labels": []}], "labels": []}]},
]


def inc_name(k):
    """names of included files differ only in letter case (file names are arbitrary keys of the file map, compared exactly)"""
    return ("inc", "Inc", "INC", "iNc", "inC", "InC")[k % 6] + ("" if k < 6 else str(k))


class Gen:
    PROFILES = {
        # statement weights: assign, loop, while, jump, stop, macro
        "plain": (46, 16, 10, 12, 4, 8), "macroheavy": (30, 8, 4, 6, 2, 50), "loops": (34, 40, 6, 8, 2, 10),
        "jumps": (34, 18, 10, 30, 4, 4), "calls": (60, 12, 6, 8, 4, 10),
        # nested uses of macros whose bodies contain LOOPs over temporaries (REPEAT in REPEAT in IF ...)
        "repeats": (34, 6, 4, 4, 2, 50),
    }

    def __init__(self, seed, macros=False, gotos=True, whiles=True, calls=True, diverge=0.03, big=False, profile="plain"):
        self.r = random.Random(seed)
        self.macros, self.gotos, self.whiles, self.calls, self.diverge = macros, gotos, whiles, calls, diverge
        self.lid = 0
        self.lab = 0
        self.hid = 0
        self.big = big
        self.profile = profile
        w = list(self.PROFILES[profile])
        if not whiles:
            w[2] = 0
        if not gotos:
            w[3] = 0
        if not macros:
            w[5] = 0
        self.cum = [sum(w[:i + 1]) / float(sum(w)) for i in range(6)]
        self.maxdepth = 3
        self.macrodepth = 3 if profile in ("macroheavy", "repeats") else 2

    # ---- values -------------------------------------------------------------------------------
    def simple(self, vs):
        r = self.r
        k = r.random()
        if k < 0.3:
            return {"k": "const", "c": r.choice([0, 1, 2, 3, 5])}
        if k < 0.6:
            return {"k": "var", "x": r.choice(vs)}
        if k < 0.85:
            return {"k": "inc", "x": r.choice(vs), "c": r.choice([0, 1, 2, 4])}
        return {"k": "dec", "x": r.choice(vs), "c": r.choice([0, 1, 2, 7])}

    def value(self, vs, routines, depth, inslot=False):
        r = self.r
        if self.calls and routines and r.random() < (0.5 if self.profile == "calls" else 0.28) and depth < 2:
            visible = {}
            for rt in routines:
                visible[rt["name"]] = rt          # the latest completed definition of a name is the one a call sees
            f = visible[r.choice(sorted(visible))]
            if not (inslot and not f["params"]):      # the slot grammar has no empty argument list
                paren = bool(self.macros and f["params"] and r.random() < 0.4)
                v = {"k": "call", "f": f["name"],
                     "args": [self.value(vs, routines, depth + 1, inslot or paren) for _ in f["params"]]}
                if paren:
                    v["syntax"] = "paren"             # f(a, b) through the call-syntax macro: the arguments fill an <ARGS> slot
                return v
        if self.macros and r.random() < 0.12 and depth == 0:
            op = r.choice(["ADD", "MUL"])
            x, y = self.atom(vs), self.atom(vs)
            return {"k": "call", "f": op.lower(), "args": [x, y], "syntax": op}
        return self.simple(vs)

    def atom(self, vs):
        return {"k": "const", "c": self.r.choice([0, 1, 2, 3])} if self.r.random() < 0.4 else {"k": "var", "x": self.r.choice(vs)}

    # ---- statements ---------------------------------------------------------------------------
    def block(self, vs, routines, depth, n, inslot=False):
        out = []
        r = self.r
        for _ in range(n):
            k = r.random()
            c = self.cum
            st = None
            if k < c[0] or depth >= self.maxdepth:
                st = {"k": "assign", "x": r.choice(vs), "v": self.value(vs, routines, 0, inslot)}
            elif k < c[1]:
                self.lid += 1
                myid = "L%d" % self.lid
                body = self.block(vs, routines, depth + 1, r.randint(1, 3), inslot)
                if self.profile == "loops" and depth < 2 and r.random() < 0.35 and body[0]["k"] != "loop":
                    # a loop directly inside a loop (same line in dense layouts): inner bound = a small constant variable
                    self.lid += 1
                    inner = {"k": "loop", "id": "L%d" % self.lid, "x": r.choice(vs), "labels": [],
                             "body": self.block(vs, routines, depth + 2, r.randint(1, 2), inslot)}
                    body.insert(0, inner)
                x = r.choice(vs)
                if r.random() < 0.3:    # assign to the bound inside the body: must not change the iteration count
                    body.insert(r.randrange(len(body) + 1), {"k": "assign", "x": x, "v": self.simple(vs), "labels": []})
                st = {"k": "loop", "id": myid, "x": x, "body": body}
            elif k < c[2]:
                x = r.choice(vs)
                body = self.block(vs, routines, depth + 1, r.randint(1, 2), inslot)
                if r.random() > self.diverge:
                    body.append({"k": "assign", "x": x, "v": {"k": "dec", "x": x, "c": r.choice([1, 2])}, "labels": []})
                st = {"k": "while", "x": x, "body": body}
            elif k < c[3]:
                self.lab += 1
                lab = "M%d" % self.lab
                st = ({"k": "if", "x": r.choice(vs), "c": r.choice([0, 1, 2]), "to": lab} if r.random() < 0.6
                      else {"k": "goto", "to": lab})
                st["back"] = r.random() < self.diverge   # an unguarded backward jump: probably divergent
            elif k < c[4]:
                st = {"k": "stop"}
            elif depth < self.macrodepth:
                self.hid += 1
                kind = r.choice(["repeat", "repeat", "repeat", "ifelse", "double"] if self.profile == "repeats"
                                else ["ifelse", "ifelse", "repeat", "skip", "double"])
                if kind == "ifelse":
                    st = {"k": "ifelse", "h": self.hid, "v": self.slotvalue(vs, routines),
                          "then": self.block(vs, routines, depth + 1, r.randint(1, 2), True),
                          "else": self.block(vs, routines, depth + 1, r.randint(1, 2), True)}
                elif kind == "repeat":
                    st = {"k": "repeat", "h": self.hid, "c": r.choice([1, 2, 3] if self.profile == "repeats" else [0, 1, 2, 3]),
                          "body": self.block(vs, routines, depth + 1, r.randint(1, 2), True)}
                elif kind == "double":
                    st = {"k": "double", "h": self.hid, "x": r.choice(vs)}
                else:
                    st = {"k": "skip"}
            else:
                st = {"k": "assign", "x": r.choice(vs), "v": self.value(vs, routines, 0, inslot)}
            st.setdefault("labels", [])
            if inslot:
                st["slot"] = True       # inside a macro slot: the slot grammar allows at most one label per statement
            out.append(st)
        return out

    def slotvalue(self, vs, routines):
        v = self.value(vs, routines, 1, True)
        return v

    def routine(self, name, routines):
        r = self.r
        params = ["p%d" % j for j in range(r.randint(0, 3))]
        vs = params + ["x0", "t"]
        hasout = bool(params) and r.random() < 0.6       # OUT is only available after IN in the grammar
        out = r.choice(params + ["t", "x0"]) if hasout else "x0"
        self.lab = 0                                     # mark names are local to a program: every routine (and the main part) reuses M1, M2, ...
        body = self.block(vs, list(routines), 0, r.randint(1, 4))
        return {"name": name, "params": params, "out": out, "hasout": hasout, "body": body}

    def program(self):
        r = self.r
        routines = [dict(p, body=_copy(p["body"])) for p in PRELUDE] if self.macros else []
        nr = r.randint(0, 4 if self.big else 3) if self.calls else 0
        for i in range(nr):
            name = "f%d" % i
            if i > 0 and r.random() < 0.15:
                name = "f%d" % r.randrange(i)            # redefinition of an earlier name
            elif r.random() < 0.06:
                name = r.choice(["__INC__", "__DEC__"])   # the names the built-in sugar expands to are ordinary identifiers
            routines.append(self.routine(name, routines))
        self.lab = 0
        main = self.block(["x", "y", "z"], routines, 0, r.randint(2, 7 if self.big else 6))
        prog = {"routines": routines, "main": main}
        for body in [rt["body"] for rt in routines] + [main]:
            mark_slots(body, False)
            place_labels(body, r)
        return prog


def _copy(x):
    import copy
    return copy.deepcopy(x)


def walk(block, acc, slots=False):
    """all statements in text order; sub-blocks of loops, whiles and macro uses"""
    for st in block:
        acc.append(st)
        for key in ("body", "then", "else"):
            if key in st:
                walk(st[key], acc)


def mark_slots(block, inslot):
    """everything nested in a macro use fills a slot (the slot grammar allows at most one label per statement)"""
    for st in block:
        if inslot:
            st["slot"] = True
        for key in ("body", "then", "else"):
            if key in st:
                mark_slots(st[key], inslot or st["k"] in ("ifelse", "repeat"))


def place_labels(body, r):
    sts = []
    walk(body, sts)
    for i, st in enumerate(sts):
        if st["k"] in ("goto", "if"):
            cands = sts[:i] if st.get("back") and i > 0 else sts[i + 1:]
            cands = [t for t in cands if len(t["labels"]) == 0 and t["k"] != "skip"] or \
                    [t for t in cands if t["k"] != "skip" and not t.get("slot")]
            if not cands:
                labs, slot = st["labels"], st.get("slot", False)
                st.clear()
                st.update({"k": "assign", "x": "z", "v": {"k": "const", "c": 1}, "labels": labs, "slot": slot})
            else:
                r.choice(cands)["labels"].append(st["to"])
            st.pop("back", None)


# ---- core AST (what TheoSem executes): macro uses replaced by their documented meaning ---------------
def core_block(block):
    out = []
    for st in block:
        k = st["k"]
        if k == "ifelse":
            h = st["h"]
            t0, t1, t2 = "%%i%d_0" % h, "%%i%d_1" % h, "%%i%d_2" % h
            first = {"k": "assign", "x": t0, "v": {"k": "const", "c": 0}, "labels": list(st["labels"])}
            out += [first,
                    {"k": "assign", "x": t1, "v": {"k": "const", "c": 1}, "labels": []},
                    {"k": "assign", "x": t2, "v": core_value(st["v"]), "labels": []},
                    {"k": "loop", "id": "H%da" % h, "x": t2, "labels": [], "body": [
                        {"k": "assign", "x": t0, "v": {"k": "const", "c": 1}, "labels": []},
                        {"k": "assign", "x": t1, "v": {"k": "const", "c": 0}, "labels": []}]},
                    {"k": "loop", "id": "H%db" % h, "x": t0, "labels": [], "body": core_block(st["then"])},
                    {"k": "loop", "id": "H%dc" % h, "x": t1, "labels": [], "body": core_block(st["else"])}]
        elif k == "repeat":
            h = st["h"]
            t0 = "%%r%d" % h
            out += [{"k": "assign", "x": t0, "v": {"k": "const", "c": st["c"]}, "labels": list(st["labels"])},
                    {"k": "loop", "id": "H%dr" % h, "x": t0, "labels": [], "body": core_block(st["body"])}]
        elif k == "skip":
            out.append({"k": "assign", "x": "skip_", "v": {"k": "const", "c": 0}, "labels": list(st["labels"])})
        elif k == "double":
            h = st["h"]
            t0 = "%%d%d" % h
            out += [{"k": "assign", "x": t0, "v": {"k": "var", "x": st["x"]}, "labels": list(st["labels"])},
                    {"k": "loop", "id": "H%dd" % h, "x": t0, "labels": [], "body": [
                        {"k": "assign", "x": t0, "v": {"k": "const", "c": 0}, "labels": []},
                        {"k": "assign", "x": st["x"], "v": {"k": "inc", "x": st["x"], "c": 1}, "labels": []}]}]
        elif k in ("loop", "while"):
            c = {kk: vv for kk, vv in st.items() if kk != "body"}
            c["body"] = core_block(st["body"])
            out.append(c)
        elif k == "assign":
            out.append({"k": "assign", "x": st["x"], "v": core_value(st["v"]), "labels": list(st["labels"]),
                        **{kk: st[kk] for kk in ("file", "line") if kk in st}})
        else:
            out.append(dict(st))
    return out


def core_value(v):
    if v["k"] == "call":
        return {"k": "call", "f": v["f"], "args": [core_value(a) for a in v["args"]]}
    return dict(v)


def uservars(body, extra):
    s = set(extra)
    sts = []
    walk(body, sts)

    def val(v):
        if v["k"] in ("var", "inc", "dec"):
            s.add(v["x"])
        if v["k"] == "call":
            for a in v["args"]:
                val(a)
    for st in sts:
        if st["k"] == "assign":
            s.add(st["x"])
            val(st["v"])
        elif st["k"] in ("loop", "while", "if"):
            s.add(st["x"])
        elif st["k"] == "ifelse":
            val(st["v"])
        elif st["k"] == "skip":
            s.add("skip_")
        elif st["k"] == "double":
            s.add(st["x"])
    return sorted(x for x in s if not x.startswith("%"))


def has_kind(body, kinds):
    sts = []
    walk(body, sts)
    return any(st["k"] in kinds for st in sts)


def make_ast(prog, fill_pos=True):
    """AST record for TheoSem: core statements, user-variable lists, 'structured' flag."""
    routines = []
    for rt in prog["routines"]:
        routines.append({"name": rt["name"], "params": rt["params"], "out": rt["out"], "body": core_block(rt["body"]),
                         "endfile": rt.get("endfile", "?"), "endline": rt.get("endline", 0),
                         "vars": uservars(rt["body"], rt["params"] + ([rt["out"]] if rt["hasout"] else []))})
    main = core_block(prog["main"])
    allb = [rt["body"] for rt in prog["routines"]] + [prog["main"]]
    ast = {"routines": routines, "main": main, "mainvars": uservars(prog["main"], []),
           "structured": not any(has_kind(b, ("goto", "if")) for b in allb),
           "loop_only": not any(has_kind(b, ("goto", "if", "while")) for b in allb)}
    if fill_pos:
        def fill(b):
            for st in b:
                st.setdefault("file", "?")
                st.setdefault("line", 0)
                st.setdefault("labels", [])
                if st["k"] in ("loop", "while"):
                    st.setdefault("endfile", "?")
                    st.setdefault("endline", 0)
                    fill(st["body"])
        for rt in routines:
            fill(rt["body"])
        fill(main)
    return ast


# ---- rendering -------------------------------------------------------------------------------------
def vtoks(v, kw):
    k = v["k"]
    if k == "var":
        return [v["x"]]
    if k == "const":
        return [str(v["c"])]
    if k == "inc":
        return [v["x"], "+", str(v["c"])]
    if k == "dec":
        return [v["x"], "-", str(v["c"])]
    syn = v.get("syntax")
    if syn in ("ADD", "MUL"):
        return vtoks(v["args"][0], kw) + [syn] + vtoks(v["args"][1], kw)
    args = []
    for i, a in enumerate(v["args"]):
        if i:
            args.append(",")
        args += vtoks(a, kw)
    if syn == "paren":
        return [v["f"], "("] + args + [")"]
    return [kw("RUN"), v["f"], kw("WITH")] + args + [kw("END")]


def render_canon(prog, r, nfiles=0, spell=True):
    """One statement per line. Returns (files, main, ast). Positions are written into prog's statements."""
    def kw(k):
        return r.choice(KW[k]) if spell else k
    lines = []   # [text, [objects whose position is this line: (dict, "line"|"endline")]]

    def emit(txt, owner=None, field="line"):
        lines.append([txt, [(owner, field)] if owner is not None else []])

    def block(b, ind):
        for i, st in enumerate(b):
            sep = ";" if i < len(b) - 1 else ""
            lab = "".join(l + ": " for l in st["labels"])
            k = st["k"]
            if k == "assign":
                emit(ind + lab + "%s := %s%s" % (st["x"], " ".join(vtoks(st["v"], kw)), sep), st)
            elif k == "goto":
                emit(ind + lab + "%s %s%s" % (kw("GOTO"), st["to"], sep), st)
            elif k == "if":
                emit(ind + lab + "%s %s = %d %s %s %s%s" % (kw("IF"), st["x"], st["c"], kw("THEN"), kw("GOTO"), st["to"], sep), st)
            elif k == "stop":
                emit(ind + lab + kw("STOP") + sep, st)
            elif k == "loop":
                emit(ind + lab + "%s %s %s" % (kw("LOOP"), st["x"], kw("DO")), st)
                block(st["body"], ind + "  ")
                emit(ind + kw("END") + sep, st, "endline")
            elif k == "while":
                emit(ind + lab + "%s %s != 0 %s" % (kw("WHILE"), st["x"], kw("DO")), st)
                block(st["body"], ind + "  ")
                emit(ind + kw("END") + sep, st, "endline")
            else:
                raise ValueError("macro statement in canonical rendering: " + k)
    for rt in prog["routines"]:
        hdr = "%s %s" % (kw("PROGRAM"), rt["name"])
        if rt["params"]:
            hdr += " %s " % kw("IN") + ", ".join(rt["params"]) + ((" %s %s" % (kw("OUT"), rt["out"])) if rt["hasout"] else "")
        emit(hdr + " " + kw("DO"))
        block(rt["body"], "  ")
        emit(kw("END"), rt, "endline")
    block(prog["main"], "")
    # split contiguous line ranges into included files (possibly nested)
    files = {"m": lines}
    order = ["m"]
    for k in range(nfiles):
        host = r.choice(order)
        hl = files[host]
        if len(hl) < 2:
            continue
        i = r.randrange(len(hl))
        j = r.randint(i + 1, min(len(hl), i + 1 + max(1, len(hl) // 2)))
        # never move an include line's host position inconsistently: includes are ordinary lines here
        name = inc_name(k)
        files[name] = hl[i:j]
        hl[i:j] = [['%s "%s"' % (kw("INCLUDE"), name), []]]
        order.append(name)
    texts = {}
    for fname, fl in files.items():
        for ln, (txt, owners) in enumerate(fl, 1):
            for obj, field in owners:
                if field == "line":
                    obj["file"], obj["line"] = fname, ln
                else:
                    obj["endfile"], obj["endline"] = fname, ln
        texts[fname] = "\n".join(t for t, _ in fl) + "\n"
    return texts, "m"


def render_free(prog, r, nfiles=0, lib_in_file=True, style="normal"):
    """Arbitrary layout with user macros. Returns (files, main, tokmap) where tokmap = set of (file, line) that
    carry a token of the program text."""
    def kw(k):
        return r.choice(KW[k])
    toks = []      # strings; "\n!" marks a forced line break after comments

    def value(v):
        toks.extend(vtoks(v, kw))

    def block(b):
        for i, st in enumerate(b):
            for l in st["labels"]:
                toks.extend([l, ":"])
            k = st["k"]
            if k == "assign":
                toks.extend([st["x"], ":="])
                value(st["v"])
            elif k == "goto":
                toks.extend([kw("GOTO"), st["to"]])
            elif k == "if":
                toks.extend([kw("IF"), st["x"], "=", str(st["c"]), kw("THEN"), kw("GOTO"), st["to"]])
            elif k == "stop":
                toks.append(kw("STOP"))
            elif k == "loop":
                toks.extend([kw("LOOP"), st["x"], kw("DO")])
                block(st["body"])
                toks.append(kw("END"))
            elif k == "while":
                toks.extend([kw("WHILE"), st["x"], "!= 0", kw("DO")])
                block(st["body"])
                toks.append(kw("END"))
            elif k == "ifelse":
                toks.append("IF")
                value(st["v"])
                toks.append("THEN")
                block(st["then"])
                toks.append("ELSE")
                block(st["else"])
                toks.append("END")
            elif k == "repeat":
                toks.extend(["REPEAT", str(st["c"]), "TIMES"])
                block(st["body"])
                toks.append("END")
            elif k == "skip":
                toks.append("SKIP")
            elif k == "double":
                toks.extend(["DOUBLE", st["x"]])
            if i < len(b) - 1:
                toks.append(";")
    uses_macros = any(rt["name"] in ("add", "mul") for rt in prog["routines"][:2]) and len(prog["routines"]) >= 2 \
        and prog["routines"][0]["name"] == "add"
    libtext = None
    for rt in prog["routines"]:
        toks.extend([kw("PROGRAM"), rt["name"]])
        if rt["params"]:
            toks.append(kw("IN"))
            for i, p in enumerate(rt["params"]):
                if i:
                    toks.append(",")
                toks.append(p)
            if rt["hasout"]:
                toks.extend([kw("OUT"), rt["out"]])
        toks.append(kw("DO"))
        block(rt["body"])
        toks.append(kw("END"))
    block(prog["main"])
    # lay the tokens out
    files = {}
    main_items = list(toks)
    pieces = {"m": main_items}
    order = ["m"]
    for k in range(nfiles):
        host = r.choice(order)
        hl = pieces[host]
        if len(hl) < 3:
            continue
        i = r.randrange(len(hl))
        j = r.randint(i + 1, min(len(hl), i + 1 + max(1, len(hl) // 2)))
        name = inc_name(k)
        pieces[name] = hl[i:j]
        hl[i:j] = [("include", name)]
        order.append(name)
    tokmap = set()
    for fname, items in pieces.items():
        out = []
        line = 1
        if fname == "m" and uses_macros:
            if lib_in_file:
                out.append('%s "lib"\n' % kw("INCLUDE"))
                line += 1
            else:
                for d in MACRO_LIB:
                    out.append(d + "\n")
                    line += 1
        for it in items:
            if isinstance(it, tuple):
                out.append('%s "%s"' % (kw("INCLUDE"), it[1]))
            else:
                out.append(it)
                tokmap.add((fname, line))
            q = r.random()
            if style == "dense":
                q = 0.5 + q / 2 if r.random() < 0.93 else q       # almost everything on one line
            elif style == "sparse":
                q = q / 3                                         # almost every token on its own line
            if q < 0.18:
                out.append("\n")
                line += 1
            elif q < 0.22:
                out.append(" // c%d\n" % r.randrange(9))
                line += 1
            elif q < 0.26:
                out.append("\n\n")
                line += 2
            elif q < 0.3:
                out.append("\t")
            else:
                out.append(" ")
        files[fname] = "".join(out)
    if uses_macros and lib_in_file:
        files["lib"] = "\n".join(MACRO_LIB) + "\n"
    if uses_macros:
        libf = "lib" if lib_in_file else "m"
        for i in range(len(MACRO_LIB)):
            tokmap.add((libf, i + 1))
    return files, "m", tokmap


def gen_canon(seed, nfiles=None, **kw):
    r = random.Random(seed * 7919 + 1)
    kw.setdefault("profile", r.choice(["plain", "plain", "loops", "jumps", "calls"]))
    g = Gen(seed, macros=False, **kw)
    prog = g.program()
    nf = r.choice([0, 0, 1, 2, 3]) if nfiles is None else nfiles
    files, main = render_canon(prog, r, nf)
    ast = make_ast(prog)
    ast["canon"] = True
    return {"files": files, "main": main, "ast": ast, "canon": True}


def gen_free(seed, nfiles=None, **kw):
    r = random.Random(seed * 104729 + 3)
    kw.setdefault("profile", r.choice(["plain", "plain", "macroheavy", "loops", "jumps", "calls", "repeats"]))
    g = Gen(seed, macros=True, **kw)
    prog = g.program()
    nf = r.choice([0, 1, 2, 3]) if nfiles is None else nfiles
    style = r.choice(["normal", "normal", "dense", "dense", "sparse"])
    files, main, tokmap = render_free(prog, r, nf, lib_in_file=r.random() < 0.7, style=style)
    ast = make_ast(prog)
    ast["canon"] = False
    return {"files": files, "main": main, "ast": ast, "canon": False, "tokmap": sorted(tokmap)}


def include_twice(p, r):
    """canonical program -> the same with one included file of plain assignments included twice in a row (its statements then run
    twice, at the same file and line); returns True if a suitable file was found.  Positions in the AST are kept consistent."""
    ast = p["ast"]
    blocks = []

    def collect(b):
        blocks.append(b)
        for st in b:
            for key in ("body", "then", "else"):
                if key in st:
                    collect(st[key])
    collect(ast["main"])
    for rt in ast["routines"]:
        collect(rt["body"])
    names = [f for f in p["files"] if f != p["main"]]
    r.shuffle(names)
    for name in names:
        owners = [(b, i) for b in blocks for i, st in enumerate(b) if st.get("file") == name]
        if not owners or any(b is not owners[0][0] for b, _ in owners):
            continue
        b = owners[0][0]
        idx = [i for _, i in owners]
        sts = [b[i] for i in idx]
        if idx != list(range(idx[0], idx[0] + len(idx))) or any(st["k"] != "assign" or st.get("labels") or st["v"]["k"] == "call" for st in sts):
            continue
        if any(":=" not in ln for ln in p["files"][name].split("\n") if ln.strip()):
            continue            # only files that consist of assignments (no include, no END of an enclosing construct)
        # the host line
        host = None
        for f, text in p["files"].items():
            lines = text.split("\n")
            for ln, t in enumerate(lines, 1):
                if t.strip().lower() == 'include "%s"' % name.lower() and t.strip()[8:].strip() == '"%s"' % name:
                    host = (f, ln, lines)
        if host is None:
            continue
        f, ln, lines = host
        # a file of assignments is followed by ';' inside the file or on the host side; the copy needs the same separator: only files
        # whose last statement carries its own ';' (or that end the block) are taken
        body = p["files"][name].rstrip()
        last_in_block = idx[-1] == len(b) - 1
        if not body.endswith(";"):
            if not last_in_block:
                continue
            p["files"][name] = body + ";\n" if False else p["files"][name]
            continue
        lines.insert(ln, lines[ln - 1])
        p["files"][f] = "\n".join(lines)

        def shift(bk):
            for st in bk:
                if st.get("file") == f and st.get("line", 0) > ln:
                    st["line"] += 1
                if st.get("endfile") == f and st.get("endline", 0) > ln:
                    st["endline"] += 1
                for key in ("body", "then", "else"):
                    if key in st:
                        shift(st[key])
        shift(ast["main"])
        for rt in ast["routines"]:
            shift(rt["body"])
            for key in ("file", "line", "endfile", "endline"):
                pass
            if rt.get("file") == f and rt.get("line", 0) > ln:
                rt["line"] += 1
            if rt.get("endfile") == f and rt.get("endline", 0) > ln:
                rt["endline"] += 1
        b[idx[-1] + 1:idx[-1] + 1] = [_copy(st) for st in sts]
        return True
    return False


def gen_static_error(seed):
    """a generated source in free layout over several files whose only faults are static ones (a jump to a mark that is never set,
    a call of an unknown program, one argument too many) placed in a routine body or in the main part: the error locations come from
    code generation, whose notion of the current position crosses file boundaries"""
    r = random.Random(seed * 15485863 + 5)
    g = Gen(seed, macros=r.random() < 0.4, profile=r.choice(["plain", "calls", "loops"]), diverge=0.0)
    prog = g.program()
    bodies = [rt["body"] for rt in prog["routines"] if rt["name"] not in ("add", "mul")] + [prog["main"]]
    for _ in range(r.randint(1, 2)):
        body = r.choice(bodies)
        kind = r.random()
        if kind < 0.6:
            st = {"k": "goto", "to": "NOMARK%d" % r.randrange(3), "labels": []}
        elif kind < 0.8:
            st = {"k": "assign", "x": "x0", "v": {"k": "call", "f": "nosuch", "args": [{"k": "var", "x": "x0"}]}, "labels": []}
        else:
            st = {"k": "if", "x": "x0", "c": 0, "to": "NOMARK9", "labels": []}
        body.insert(r.randrange(len(body) + 1), st)
    files, main, _ = render_free(prog, r, r.choice([1, 2, 3]), lib_in_file=r.random() < 0.7, style=r.choice(["normal", "sparse", "sparse", "dense"]))
    return {"files": files, "main": main}


if __name__ == "__main__":
    import json
    import sys
    p = (gen_free if sys.argv[1] == "free" else gen_canon)(int(sys.argv[2]))
    for f, t in p["files"].items():
        print("=== %s ===\n%s" % (f, t))
    print(json.dumps(p["ast"])[:3000])
