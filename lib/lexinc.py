"""Scanner family (TheoLex.tla, TheoInclude.tla): enumerated texts / include graphs replayed into Theo::scan."""
import json
import os

from common import Broken, NCPU, run_th, parallel_th, rundir, tlc, require_ok, log

KIND = {n: i for i, n in enumerate(
    ["T_EOF", "ID", "NV_ID", "INT", "PAREN_CLOSE", "PAREN_OPEN", "ARGSEP", "PROGSEP", "LABELDEC", "ASSIGN", "NEQ_ZERO", "EQ", "DO",
     "LOOP", "WHILE", "GOTO", "IF", "THEN", "STOP", "END", "PROGRAM", "IN", "OUT", "INCLUDE", "FNAME", "DEFINE", "AS", "PRIORITY",
     "END_DEFINE", "PROG_TEMP", "VALUE_TEMP", "ID_TEMP", "INT_TEMP", "ARGS_TEMP", "INSERTION", "TEMP_VAL", "RUN", "WITH", "UNKNOWN"])}
ERR = {"MAIN_FILE_NOT_FOUND": 0, "EXPECTED_FILENAME": 1, "FILE_NOT_FOUND": 2, "RECURSIVE_INCLUDE": 3, "TOO_MANY_TOKENS": 11}
HI, CT = 0xE9, 0x01


def to_bytes(chars):
    return bytes((HI if c == "HI" else CT if c == "CT" else 0 if c == "NUL" else ord(c)) for c in chars)


def keyword_fragments():
    kws = ["RUN", "Run", "run", "WITH", "With", "with", "DO", "do", "Do", "LOOP", "Loop", "loop", "WHILE", "While", "while", "GOTO", "Goto",
           "goto", "IF", "If", "if", "THEN", "Then", "then", "STOP", "Stop", "stop", "END", "End", "end", "PROGRAM", "Program", "program",
           "PROG", "Prog", "prog", "IN", "In", "in", "OUT", "Out", "out", "DEFINE", "Define", "Def", "define", "def", "AS", "As", "as",
           "PRIORITY", "Priority", "priority", "PRIO", "Prio", "prio", "END DEFINE", "End Define", "end define", "ENDDEF", "Enddef", "enddef",
           "<PROGRAM>", "<Program>", "<program>", "<PROG>", "<Prog>", "<prog>", "<P>", "<p>", "<VALUE>", "<Value>", "<value>", "<VAL>", "<Val>",
           "<val>", "<V>", "<v>", "<ID>", "<id>", "<INT>", "<Int>", "<int>", "<ARGS>", "<Args>", "<args>", "<A>", "<a>",
           "VALUE", "Val", "ARGS", "Args"]
    frags = set(kws)
    for k in kws:
        frags.add(k[:-1])
        frags.add(k + "x")
        frags.add(k.swapcase())
    frags |= {"END  DEFINE", "END\nDEFINE", "End define", "!= 0", "!=  0", "!=0", "!= 00", "!= 1", ":=", ":", "=", ": =", "$0", "$01", "$10", "$", "$x",
              "#1", "#01", "#", "0", "00", "10", "007", "x1", "_", "_9", "9x", "\"ab\"", "\"a\nb\"", "\"", "\"\"", "// c", "//", "/", "/ /",
              "(", ")", ",", ";", "+", "-", "<", ">", "<>", "<P", "P>", "!", "!=", "\t", "é"}
    frags.discard("")
    frags = {f for f in frags if "include" not in f.lower()}
    out = []
    for f in sorted(frags):
        out.append(["HI" if c == "é" else c for c in f])
    # the zero byte is an unknown character like any other (it does not end the file)
    out += [["NUL"], ["a", "NUL"], ["NUL", "1"], ["NUL", "NUL"], ["i", "n", "NUL", "c", "l", "u", "d", "e"]]
    return out


def spec_tokens(c):
    """expected (kind, bytes, line) list from a TLC case"""
    return [(KIND[t["k"]], to_bytes(t["t"]).hex(), t["l"]) for t in (c["toks"] or [])]


def real_tokens(rec):
    """(kind, hex, line) of every token but the final EOF; returns (tokens, eof_ok)"""
    toks = rec["toks"]
    eof_ok = len(toks) >= 1 and toks[-1][0] == 0 and all(t[0] != 0 for t in toks[:-1])
    return [(t[0], t[1], t[3]) for t in toks[:-1]], eof_ok, [t[2] for t in toks[:-1]]


def compare_lex(chk, ths, cases, what):
    """ths: {variant: th path}. Every case is scanned by every build; all must equal TheoLex's tokenisation."""
    usable = []
    skipped = 0
    for c in cases:
        exp = spec_tokens(c)
        ks = [k for k, _, _ in exp]
        if KIND["INCLUDE"] in ks:      # include directives are the business of TheoInclude (domain restriction, counted)
            skipped += 1
            continue
        if not c["s"]:
            continue
        usable.append((to_bytes(c["s"]), exp, c))
    chk.add("lex_cases_skipped_include", skipped)
    inputs = [{"i": i, "hexfiles": {"m": b.hex()}, "main": "m"} for i, (b, _, _) in enumerate(usable)]
    n = 0
    for variant, th in ths.items():
        got = {}
        for recs, rc, err, part in parallel_th(th, ["scan"], inputs, timeout=900):
            for r in recs:
                if "toks" in r:
                    got[r["i"]] = r
            if rc != 0:
                begun = [r["begin"] for r in recs if "begin" in r]
                bad = usable[begun[-1]] if begun else None
                chk.violation("%s:abort:%s" % (what, variant), "scanner (%s build) aborted (exit %s) on input %r: %s"
                              % (variant, rc, bad and bad[0], err[-1500:]), {"input_hex": bad and bad[0].hex(), "stderr": err[-3000:]})
        for i, (b, exp, c) in enumerate(usable):
            r = got.get(i)
            if r is None:
                continue
            act, eof_ok, files = real_tokens(r)
            n += 1
            if act != exp or not eof_ok or any(f != "m" for f in files):
                chk.violation("%s:%s:%s" % (what, variant, b.hex()),
                              "scanner (%s build) disagrees with TheoLex on input %r: expected %s, got %s%s"
                              % (variant, b, exp, act, "" if eof_ok else " (not exactly one final EOF token)"),
                              {"input_hex": b.hex(), "expected": exp, "actual": act, "build": variant})
    if usable:
        b, exp, c = usable[len(usable) // 2]
        chk.sample({"input": repr(b), "expected_tokens": exp})
    return n


# ---- include graphs ---------------------------------------------------------------------------------
def render_items(items):
    lines = []
    for it in items:
        k = it["k"]
        lines.append({"tok": "x", "str": '"q"', "incbad": "include 7", "incend": "include // end"}.get(k) or 'include "%s"' % it["f"])
    return "\n".join(lines) + ("\n" if lines and items[-1]["k"] != "incend" else "")


def _seq(x):
    if isinstance(x, dict):
        return [x[k] for k in sorted(x, key=int)] if x else []
    return list(x or [])


RENAMES = [{}, {"z": ""}, {"a": "Ab", "b": "aB", "c": "AB", "z": "ab"},
           {"a": "a/file/with/a/long/path/like/name.theo", "b": "b/file/with/a/long/path/like/name.theo", "z": "a/file/with/a/long/path/like/name.the"}]


def rename_case(c, mp):
    """file names are arbitrary keys: the same configuration under other names (empty absent name, names differing in case only, long names)"""
    if not mp:
        return c
    g = lambda x: mp.get(x, x)

    def item(it):
        return dict(it, f=g(it["f"])) if "f" in it else it
    return {"fs": {g(f): [item(it) for it in _seq(items)] for f, items in c["fs"].items()}, "main": g(c["main"]),
            "out": [dict(o, f=g(o["f"])) for o in _seq(c["out"])], "errs": [dict(e, f=g(e["f"])) for e in _seq(c["errs"])],
            "reqs": [g(x) for x in _seq(c["reqs"])]}


def compare_include(chk, th, cases, what, compile_th=None, compile_every=25, rename=False):
    if rename:
        cases = [rename_case(c, RENAMES[i % len(RENAMES)]) for i, c in enumerate(cases)]
    inputs = []
    for i, c in enumerate(cases):
        files = {f: render_items(_seq(items)) for f, items in c["fs"].items()}
        inputs.append({"i": i, "files": files, "main": c["main"]})
    got = {}
    for recs, rc, err, part in parallel_th(th, ["scan"], inputs, timeout=1200):
        for r in recs:
            if "toks" in r:
                got[r["i"]] = r
        if rc != 0:
            begun = [r["begin"] for r in recs if "begin" in r]
            bad = inputs[begun[-1]] if begun else None
            chk.violation("%s:abort" % what, "Theo::scan aborted (exit %s) on %s: %s" % (rc, bad, err[-1500:]), {"input": bad, "stderr": err[-3000:]})
    n = 0
    for i, c in enumerate(cases):
        r = got.get(i)
        if r is None:
            continue
        n += 1
        exp_toks = [(KIND["FNAME"] if o.get("k") == "str" else 1, o["f"], o["l"]) for o in _seq(c["out"])]
        act, eof_ok, files = real_tokens(r)
        act_toks = [(k, f, l) for (k, _, l), f in zip(act, files)]
        exp_errs = sorted((ERR[e["t"]], e["f"], e["l"]) for e in _seq(c["errs"]))
        act_errs = sorted((e[0], e[1], e[2]) for e in r["errors"])
        exp_reqs = set(_seq(c["reqs"]))
        act_reqs = {e[3] for e in r["errors"] if e[0] in (0, 2)}
        if act_toks != exp_toks or not eof_ok or exp_errs != act_errs or exp_reqs != act_reqs:
            chk.violation("%s:%s" % (what, json.dumps(inputs[i], sort_keys=True)),
                          "Theo::scan disagrees with TheoInclude on %s: tokens expected %s got %s; errors expected %s got %s; requests expected %s got %s%s"
                          % (inputs[i], exp_toks, act_toks, exp_errs, act_errs, sorted(exp_reqs), sorted(act_reqs),
                             "" if eof_ok else "; not exactly one final EOF"), {"input": inputs[i], "expected": {"toks": exp_toks, "errs": exp_errs,
                                                                                                       "reqs": sorted(exp_reqs)}})
    # Theo::compile must return exactly the missing names as file requests
    if compile_th:
        sub = list(range(0, len(cases), compile_every))
        cin = [dict(inputs[i], i=i) for i in sub]
        cgot = {}
        for recs, rc, err, part in parallel_th(compile_th, ["compile"], cin, timeout=1200):
            for r in recs:
                if "ok" in r:
                    cgot[r["i"]] = r
            if rc != 0:
                begun = [r["begin"] for r in recs if "begin" in r]
                chk.violation("%s:compile-abort" % what, "Theo::compile aborted on include graph %s: %s" % (begun and inputs[begun[-1]], err[-1500:]),
                              {"input": begun and inputs[begun[-1]]})
        for i in sub:
            r = cgot.get(i)
            if r is None:
                continue
            exp_reqs = set(_seq(cases[i]["reqs"]))
            if set(r["requests"]) != exp_reqs or (exp_reqs and r["ok"]):
                chk.violation("%s:requests:%s" % (what, json.dumps(inputs[i], sort_keys=True)),
                              "Theo::compile file_requests %s (ok=%s), TheoInclude expects %s for %s" % (r["requests"], r["ok"], sorted(exp_reqs), inputs[i]),
                              {"input": inputs[i]})
        chk.add("compile_request_cases", len(sub))
    if cases:
        chk.sample({"files": inputs[len(inputs) // 2]["files"], "main": inputs[len(inputs) // 2]["main"],
                    "expected_errors": _seq(cases[len(inputs) // 2]["errs"])})
    return n
