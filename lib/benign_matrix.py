#!/usr/bin/env python3
"""benign_matrix.py [name ...]: apply each behaviour-preserving change under /verif/benign to a scratch worktree of /repo and run the quick
checks of the area it touches; every check must exit 0 (a non-zero exit is a false alarm to be corrected in the machinery)."""
import json
import os
import subprocess
import sys

VERIF = os.path.dirname(os.path.dirname(os.path.abspath(__file__)))
WT = "/tmp/bx/repo"
OUT = "/tmp/bx/out"
AREA = {"B_vm": ["C05", "C06", "C17", "C19", "C18"], "B_gen": ["C01", "C03", "C07", "C08", "C16"],
        "B_macro": ["C09", "C10", "C11", "C12", "C02"], "B_parse": ["C04", "C02", "C16", "C01"],
        "B_scan": ["C14", "C15", "C02"], "B_lr": ["C13", "C12", "C09"]}


def sh(*a, **k):
    return subprocess.run(list(a), capture_output=True, text=True, **k)


def main():
    os.makedirs("/tmp/bx", exist_ok=True)
    if not os.path.exists(WT):
        sh("git", "-C", "/repo", "worktree", "add", "--detach", WT, "HEAD")
    sh("git", "-C", WT, "checkout", "--detach", sh("git", "-C", "/repo", "rev-parse", "HEAD").stdout.strip())
    sh("git", "-C", WT, "checkout", "--", ".")
    names = sys.argv[1:] or sorted(os.listdir(os.path.join(VERIF, "benign")))
    env = dict(os.environ, THEO_REPO=WT, VERIF_SCRATCH=OUT, VERIF_TIER="quick")
    for n in names:
        d = os.path.join(VERIF, "benign", n)
        if not os.path.exists(os.path.join(d, "patch.diff")):
            continue
        old = {}
        if os.path.exists(os.path.join(d, "result.json")):
            old = json.load(open(os.path.join(d, "result.json")))
        if old.get("obsolete"):
            print(n, "obsolete, skipped")
            continue
        r = sh("git", "-C", WT, "apply", os.path.join(d, "patch.diff"))
        if r.returncode != 0:
            print(n, "PATCH DOES NOT APPLY", r.stderr[:200])
            continue
        results = {}
        for c in AREA[n.rsplit("_", 1)[0]]:
            p = sh(os.path.join(VERIF, "check"), c, "--tier", "quick", env=env, cwd=VERIF)
            first = next((l for l in p.stderr.splitlines() if l.startswith("violation") or l.startswith("BROKEN")), "")
            results[c] = {"exit": p.returncode, "first": first[:400]}
            print(n, c, "exit", p.returncode, first[:300], flush=True)
        sh("git", "-C", WT, "checkout", "--", ".")
        new = {"change": n, "quick_check_results_with_change_applied": results,
               "false_alarms": sorted(c for c, v in results.items() if v["exit"] != 0)}
        for k in ("rebased",):
            if k in old:
                new[k] = old[k]
        json.dump(new, open(os.path.join(d, "result.json"), "w"), indent=1)


main()
