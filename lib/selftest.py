#!/usr/bin/env python3
"""Self-test of the two bindings (part of setup_cmd, not of any property check): a known-good trace / case must be accepted, and the
same trace / case with one recorded field corrupted or one event removed must be rejected."""
import copy
import os
import sys
sys.path.insert(0, os.path.dirname(os.path.abspath(__file__)))
import common
import sem
import vm


class Probe(common.Check):
    def __init__(self):
        super().__init__("SELFTEST", "other")
        self.known = []

    def violation(self, key, desc, replay_obj):
        self.violations.append((key, desc, None))


def expect(cond, what):
    print(("ok   " if cond else "FAIL ") + what, flush=True)
    if not cond:
        raise common.Broken("self-test failed: " + what)


def main():
    th = common.build("plain")
    src = vm.load_corpus(["v2_call", "v3_callloop"])
    progs = vm.compile_progs(th, src)
    # I->S, TheoVMTrace
    c = Probe()
    execs = vm.record_traces(c, th, src, 80, 1, 7)
    expect(vm.validate_traces(c, execs, progs, "osgercv", vm.TRACE_INV, name="good") == len(execs) and not c.violations, "recorded VM traces are accepted")
    bad = copy.deepcopy(execs)
    ev = next(e for e in bad[0][5:] if e["e"] in ("single", "inspect", "step", "bp"))
    ev["ip"] += 1
    c = Probe()
    vm.validate_traces(c, bad, progs, "osgercv", vm.TRACE_INV, name="bad_ip")
    expect(len(c.violations) >= 1, "a VM trace with one corrupted instruction pointer is rejected")
    bad = copy.deepcopy(execs)
    k = next(i for i, e in enumerate(bad[1]) if i > 3 and e["e"] == "single" and e["ret"] == "false")
    del bad[1][k]
    c = Probe()
    vm.validate_traces(c, bad, progs, "osgercv", vm.TRACE_INV, name="bad_drop")
    expect(len(c.violations) >= 1, "a VM trace with one executeSingle event removed is rejected")
    # S->I, TheoVM histories
    c = Probe()
    cases = vm.hist_cases(c, progs[:1], 2, name="hist")
    n = vm.replay_cases(c, th, src[:1], cases, ["ip", "ops", "data", "ret", "cur", "done", "enabled", "views"], "selftest")
    expect(n > 100 and not c.violations, "all %d S->I observations agree on the unchanged tree" % n)
    cases2 = copy.deepcopy(cases[:50])
    cases2[17]["h"][-1]["o"]["ip"] += 1
    c = Probe()
    vm.replay_cases(c, th, src[:1], cases2, ["ip"], "selftest")
    expect(len(c.violations) == 1, "an S->I case whose expected observation was altered is reported (exactly one)")
    # I->S, TheoSemTrace
    progs2 = sem.generate(5, 6, canon=True)
    c = Probe()
    sem.run_real(c, th, progs2)
    acc, _ = sem.validate(c, progs2, name="good", batches=1)
    expect(acc == len(progs2) and not c.violations, "real stepping runs of generated programs are accepted by TheoSem")
    p = next(p for p in progs2 if len(p["run"]["stops"]) > 4)
    # a user variable of the main part (hidden loop counters and temporaries in the view are not compared)
    vi = next(i for i, e in enumerate(p["run"]["stops"][2]["views"][0]) if e[0] in p["ast"]["mainvars"])
    p["run"]["stops"][2]["views"][0][vi][1] += 1
    c = Probe()
    sem.validate(c, progs2, name="bad_value", batches=1)
    expect(len(c.violations) >= 1, "a stepping trace with one corrupted variable value is rejected")
    p["run"]["stops"][2]["views"][0][vi][1] -= 1
    del p["run"]["stops"][1]
    c = Probe()
    sem.validate(c, progs2, name="bad_stop", batches=1)
    expect(len(c.violations) >= 1, "a stepping trace with one stop removed is rejected")
    # I->S, TheoCliTrace
    import cli
    c = Probe()
    cexecs = cli.record(c, src, progs, 2, 25, 3)
    expect(cli.validate(c, cexecs, progs, name="cli_good") == len(cexecs) and not c.violations, "recorded theo -d sessions are accepted")
    bad = copy.deepcopy(cexecs)
    ev = next(e for e in bad[0][3:] if e["e"] == "cli" and e["cmd"] == "s")
    ev["cur"][1] += 1
    c = Probe()
    cli.validate(c, bad, progs, name="cli_bad_cur")
    expect(len(c.violations) >= 1, "a debugger session with one corrupted current line is rejected")
    bad = copy.deepcopy(cexecs)
    x, k = next((x, i) for x, ex in enumerate(bad) for i, e in enumerate(ex[:-1])
                if i > 2 and e["cmd"] == "s" and ex[i - 1]["cur"] != e["cur"] and ex[i + 1]["cmd"] in "bdc")
    del bad[x][k]
    c = Probe()
    cli.validate(c, bad, progs, name="cli_bad_drop")
    expect(len(c.violations) >= 1, "a debugger session with one step command removed is rejected")
    print("self-test passed")
    return 0


common.main_wrapper(main)
