"""C15 - include resolution terminates, detects cycles and reports what is missing."""
import json
import os
import random

import lexinc
from common import build, log, tlc, require_ok, rundir, tlc_counterexample
LEVEL = "model_checking"


def random_graphs(seed, n):
    r = random.Random(seed)
    cases = []
    for _ in range(n):
        nf = r.randint(4, 7)
        # long names: a dangling std::string with a short name hides behind the small-string buffer (these run on the ASan build)
        names = ["include/graph/file_number_%d_of_this_case.theo" % i for i in range(nf)]
        fs = {}
        for f in names:
            items = []
            for _ in range(r.randint(0, 5)):
                q = r.random()
                if q < 0.35:
                    items.append({"k": "tok"})
                elif q < 0.45:
                    items.append({"k": "str"})
                elif q < 0.85:
                    items.append({"k": "inc", "f": r.choice(names)})
                elif q < 0.93:
                    items.append({"k": "inc", "f": r.choice(["absent/file/with/a/long/name/z.theo", "y", ""])})
                else:
                    items.append({"k": "incbad"})
            if r.random() < 0.1:
                items.append({"k": "incend"})
            fs[f] = items
        cases.append({"fs": fs, "main": r.choice(names + ["absent/file/with/a/long/name/z.theo", ""])})
    return cases


def run(chk):
    th = build("plain")
    tha = build("asan")
    inv = "INVARIANT DepthOK ReqsOK RecursiveIff StepBound\n"
    # 1. liveness in the model: scanning terminates on every include graph (weak fairness), small bound
    res = tlc("TheoInclude", "SPECIFICATION Spec\n" + inv + "PROPERTY Terminates\nCHECK_DEADLOCK FALSE\n", chk.pid, "live",
              env={"INCFILES": 3 if chk.thorough else 2, "INCITEMS": 2, "INCCASES": "/dev/null", "INCKIND": "all"}, timeout=1500, keep_cases=False)
    if not require_ok(res, "TheoInclude liveness"):
        chk.violation("c15:model:" + res.violated, "TheoInclude: %s violated\n%s" % (res.violated, tlc_counterexample(res)), {"trace": tlc_counterexample(res, 8000)})
    chk.tlc_stats(res)
    # 2. exhaustive enumeration + S->I
    nf, ni = (3, 2)
    res = tlc("TheoInclude", "SPECIFICATION Spec\n" + inv + "CHECK_DEADLOCK FALSE\n", chk.pid, "enum",
              env={"INCFILES": nf, "INCITEMS": ni, "INCCASES": "/dev/null", "INCKIND": "all"}, timeout=1500, xmx="16g")
    if not require_ok(res, "TheoInclude enumeration"):
        chk.violation("c15:model:" + res.violated, "TheoInclude: %s violated\n%s" % (res.violated, tlc_counterexample(res)), {"trace": tlc_counterexample(res, 8000)})
    chk.tlc_stats(res)
    n = lexinc.compare_include(chk, th, res.cases, "c15:enum", compile_th=tha, compile_every=200 if not chk.thorough else 40, rename=True)
    ncases = len(res.cases)
    res.cases = None
    if chk.thorough:
        res4 = tlc("TheoInclude", "SPECIFICATION Spec\n" + inv + "CHECK_DEADLOCK FALSE\n", chk.pid, "enum4",
                   env={"INCFILES": 4, "INCITEMS": 1, "INCCASES": "/dev/null", "INCKIND": "all"}, timeout=1500, xmx="16g")
        require_ok(res4, "TheoInclude 4 files")
        chk.tlc_stats(res4)
        n += lexinc.compare_include(chk, th, res4.cases, "c15:enum4", compile_th=tha, compile_every=20)
        ncases += len(res4.cases)
    # 3. randomly larger graphs: the same machine on given configurations
    d = rundir(chk.pid, "given_in")
    given = random_graphs(chk.seed, 10000 if chk.thorough else 400)
    gp = os.path.join(d, "cases.json")
    with open(gp, "w") as f:
        json.dump(given, f)
    resg = tlc("TheoInclude", "SPECIFICATION GSpec\nINVARIANT DepthOK ReqsOK StepBound\nPROPERTY Terminates\nCHECK_DEADLOCK FALSE\n", chk.pid, "given",
               env={"INCFILES": 3, "INCITEMS": 1, "INCCASES": gp, "INCKIND": "all"}, timeout=1500)
    if not require_ok(resg, "TheoInclude given"):
        chk.violation("c15:model-given:" + resg.violated, "TheoInclude: %s violated on a random graph" % resg.violated, {"trace": tlc_counterexample(resg, 8000)})
    chk.tlc_stats(resg)
    n += lexinc.compare_include(chk, tha, resg.cases, "c15:random", compile_th=tha, compile_every=4)
    chk.cov["traces_validated_against_impl"] = n
    chk.cov["include_graphs_exhaustive"] = ncases
    chk.cov["include_graphs_random"] = len(resg.cases)
    chk.cov["exhaustive"] = True
    chk.cov["rule"] = ("TheoInclude enumerates every content of %d files with up to %d items each (token, include of each file / of an absent name, "
                       "include without a name, bare include at the end) and every main (also absent); <>done under weak fairness, DepthOK, "
                       "ReqsOK in the model; each configuration is rendered and scanned by the real Theo::scan: tokens with files and lines, "
                       "errors by type/file/line, request sets, under four namings (plain, empty absent name, names differing only in case, long names); Theo::compile's file_requests on a sample; random graphs over 4-7 files" % (nf, ni))
    log("C15: %d configurations compared" % n)
