"""C15 - include resolution terminates, detects cycles and reports what is missing."""
import json
import os
import random

import lexinc
from common import build, log, tlc, require_ok, rundir, tlc_counterexample, run_th
LEVEL = "model_checking"


def random_graphs(seed, n):
    r = random.Random(seed)
    cases = []
    for _ in range(n):
        nf = r.randint(4, 7)
        # long names: a dangling std::string with a short name hides behind the small-string buffer (these run on the ASan build)
        names = ["include/graph/file_number_%d_of_this_case.theo" % i for i in range(nf)]
        fs = {}
        for f in names:
            items = []
            for _ in range(r.randint(0, 5)):
                q = r.random()
                if q < 0.35:
                    items.append({"k": "tok"})
                elif q < 0.45:
                    items.append({"k": "str"})
                elif q < 0.85:
                    items.append({"k": "inc", "f": r.choice(names)})
                elif q < 0.93:
                    items.append({"k": "inc", "f": r.choice(["absent/file/with/a/long/name/z.theo", "y", ""])})
                else:
                    items.append({"k": "incbad"})
            if r.random() < 0.1:
                items.append({"k": "incend"})
            fs[f] = items
        cases.append({"fs": fs, "main": r.choice(names + ["absent/file/with/a/long/name/z.theo", ""])})
    return cases


def doubling_chain(chk, th):
    """f0 = one token, f(i) = include f(i-1) twice: the expanded stream has 2^k tokens for k + 1 small files.  Scanning terminates
    (C15) and compile returns normally (C02) whatever k is - with an error when the stream would not fit; run with the address
    space limited to 6 GB so that 'does not fit' shows within seconds"""
    n = 0
    for k in (10, 16, 40):
        files = {"f0": "x := 1 ;\n"}
        for i in range(1, k + 1):
            files["f%d" % i] = 'include "f%d"\ninclude "f%d"\n' % (i - 1, i - 1)
        files["m"] = 'include "f%d"\ny := 2\n' % k
        job = {"i": 0, "files": files, "main": "m", "watch": 600}
        recs, rc, err = run_th("/bin/bash", ["-c", "ulimit -v 6000000; exec %s compile" % th], [job], timeout=900)
        got = next((x for x in recs if "ok" in x), None)
        n += 1
        size = sum(len(v) for v in files.values())
        if got is None:
            chk.violation("c15:doubling:%d" % k, "Theo::compile did not return normally (exit %s%s) on an include graph of %d files (%d bytes) in which "
                          "every file includes the previous one twice (2^%d tokens after expansion)"
                          % (rc, ", std::bad_alloc" if "bad_alloc" in err or rc == 70 else "", k + 2, size, k), {"input": job, "stderr": err[-1500:]})
        elif k <= 16 and not got["ok"]:
            chk.violation("c15:doubling:reject:%d" % k, "an include graph expanding to 2^%d statements was rejected: %s" % (k, got["errors"][:2]), {"input": job})
        elif k == 40 and got["ok"]:
            chk.violation("c15:doubling:accept:%d" % k, "an include graph expanding to 2^40 tokens was reported as compiled correctly", {"input": job})
    return n


def hidden_name(chk, th):
    """the hidden standard-macro file is not a supplied file: an include of its name, or its name as main file, names an absent
    file like any other when the caller did not supply it"""
    cases = [("c15:hidden:include", {"files": {"m": 'include "__standards__"\nx0 := x0 + 1\n'}, "main": "m"}),
             ("c15:hidden:main", {"files": {}, "main": "__standards__"}),
             ("c15:hidden:control", {"files": {"m": 'include "__standard__"\nx0 := x0 + 1\n'}, "main": "m"})]
    recs, rc, err = run_th(th, ["compile"], [dict(c, i=i) for i, (_, c) in enumerate(cases)], timeout=120)
    got = {x["i"]: x for x in recs if "ok" in x}
    for i, (key, c) in enumerate(cases):
        x = got.get(i)
        want = "__standard__" if key.endswith("control") else "__standards__"
        if x is None or x["ok"] or want not in x["requests"]:
            chk.violation(key, "the caller did not supply a file named %r, yet compile(%s) returns ok=%s, requests %s: an absent file must be "
                          "reported and requested" % (want, json.dumps(c), x and x["ok"], x and x["requests"]), {"input": c, "result": x})
    return len(cases)


def run(chk):
    th = build("plain")
    tha = build("asan")
    inv = "INVARIANT DepthOK ReqsOK RecursiveIff StepBound\n"
    # 1. liveness in the model: scanning terminates on every include graph (weak fairness), small bound
    res = tlc("TheoInclude", "SPECIFICATION Spec\n" + inv + "PROPERTY Terminates\nCHECK_DEADLOCK FALSE\n", chk.pid, "live",
              env={"INCFILES": 3 if chk.thorough else 2, "INCITEMS": 2, "INCCASES": "/dev/null", "INCKIND": "all", "INCLIMIT": 1048576}, timeout=1500, keep_cases=False)
    if not require_ok(res, "TheoInclude liveness"):
        chk.violation("c15:model:" + res.violated, "TheoInclude: %s violated\n%s" % (res.violated, tlc_counterexample(res)), {"trace": tlc_counterexample(res, 8000)})
    chk.tlc_stats(res)
    # 2. exhaustive enumeration + S->I
    nf, ni = (3, 2)
    res = tlc("TheoInclude", "SPECIFICATION Spec\n" + inv + "CHECK_DEADLOCK FALSE\n", chk.pid, "enum",
              env={"INCFILES": nf, "INCITEMS": ni, "INCCASES": "/dev/null", "INCKIND": "all", "INCLIMIT": 1048576}, timeout=1500, xmx="16g")
    if not require_ok(res, "TheoInclude enumeration"):
        chk.violation("c15:model:" + res.violated, "TheoInclude: %s violated\n%s" % (res.violated, tlc_counterexample(res)), {"trace": tlc_counterexample(res, 8000)})
    chk.tlc_stats(res)
    n = lexinc.compare_include(chk, th, res.cases, "c15:enum", compile_th=tha, compile_every=200 if not chk.thorough else 40, rename=True)
    ncases = len(res.cases)
    res.cases = None
    if chk.thorough:
        res4 = tlc("TheoInclude", "SPECIFICATION Spec\n" + inv + "CHECK_DEADLOCK FALSE\n", chk.pid, "enum4",
                   env={"INCFILES": 4, "INCITEMS": 1, "INCCASES": "/dev/null", "INCKIND": "all", "INCLIMIT": 1048576}, timeout=1500, xmx="16g")
        require_ok(res4, "TheoInclude 4 files")
        chk.tlc_stats(res4)
        n += lexinc.compare_include(chk, th, res4.cases, "c15:enum4", compile_th=tha, compile_every=20)
        ncases += len(res4.cases)
    # 2b. the bound on the token stream (THEO_SCAN_MAX_TOKENS): the same enumeration with the bound at 5 tokens, replayed into a harness
    #     variant compiled with that bound
    thc = build("smallcap")
    resl = tlc("TheoInclude", "SPECIFICATION Spec\n" + inv + "CHECK_DEADLOCK FALSE\n", chk.pid, "enumlimit",
               env={"INCFILES": 2, "INCITEMS": 3, "INCCASES": "/dev/null", "INCKIND": "all", "INCLIMIT": 5}, timeout=1500, xmx="16g")
    if not require_ok(resl, "TheoInclude bounded stream"):
        chk.violation("c15:model-limit:" + resl.violated, "TheoInclude (stream bound 5): %s violated" % resl.violated, {"trace": tlc_counterexample(resl, 8000)})
    chk.tlc_stats(resl)
    hit = sum(1 for c in resl.cases if any(e["t"] == "TOO_MANY_TOKENS" for e in lexinc._seq(c["errs"])))
    n += lexinc.compare_include(chk, thc, resl.cases, "c15:limit")
    chk.add("configurations_with_stream_bound_5", len(resl.cases))
    chk.add("configurations_reaching_the_stream_bound", hit)
    ncases += len(resl.cases)
    resl.cases = None
    # 3. randomly larger graphs: the same machine on given configurations
    d = rundir(chk.pid, "given_in")
    given = random_graphs(chk.seed, 10000 if chk.thorough else 400)
    gp = os.path.join(d, "cases.json")
    with open(gp, "w") as f:
        json.dump(given, f)
    resg = tlc("TheoInclude", "SPECIFICATION GSpec\nINVARIANT DepthOK ReqsOK StepBound\nPROPERTY Terminates\nCHECK_DEADLOCK FALSE\n", chk.pid, "given",
               env={"INCFILES": 3, "INCITEMS": 1, "INCCASES": gp, "INCKIND": "all", "INCLIMIT": 1048576}, timeout=1500)
    if not require_ok(resg, "TheoInclude given"):
        chk.violation("c15:model-given:" + resg.violated, "TheoInclude: %s violated on a random graph" % resg.violated, {"trace": tlc_counterexample(resg, 8000)})
    chk.tlc_stats(resg)
    n += lexinc.compare_include(chk, tha, resg.cases, "c15:random", compile_th=tha, compile_every=4)
    chk.add("doubling_include_chains", doubling_chain(chk, th))
    chk.add("hidden_file_name_cases", hidden_name(chk, th))
    chk.cov["traces_validated_against_impl"] = n
    chk.cov["include_graphs_exhaustive"] = ncases
    chk.cov["include_graphs_random"] = len(resg.cases)
    chk.cov["exhaustive"] = True
    chk.cov["rule"] = ("TheoInclude enumerates every content of %d files with up to %d items each (token, include of each file / of an absent name, "
                       "include without a name, bare include at the end) and every main (also absent); <>done under weak fairness, DepthOK, "
                       "ReqsOK in the model; each configuration is rendered and scanned by the real Theo::scan: tokens with files and lines, "
                       "errors by type/file/line, request sets, under four namings (plain, empty absent name, names differing only in case, long names); Theo::compile's file_requests on a sample; random graphs over 4-7 files" % (nf, ni))
    log("C15: %d configurations compared" % n)
