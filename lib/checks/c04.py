"""C04 - the compiler accepts exactly the programs of the language."""
import parse
from common import build, log
LEVEL = "model_checking"


def run(chk):
    th = build("plain")
    n_tok, n_chunk, n_ref = (10, 6, 9) if chk.thorough else (8, 5, 8)
    total = 0
    cases = parse.enumerate_cases(chk, n_tok, "tokens")
    chk.add("token_level_cases", len(cases))
    chk.add("sentences", sum(1 for c in cases if c["acc"]))
    total += parse.replay_verdicts(chk, th, cases, "c04:tokens", chk.seed)
    # one edit away from every sentence: a refused token inside an otherwise complete program (decided by the automaton)
    edits = parse.sentence_edits(cases, chk.seed, per_sentence=150 if chk.thorough else None)
    ev = parse.decide(chk, edits, name="edits")
    total += parse.replay_decided(chk, th, edits, ev, "c04:edits", chk.seed + 5)
    chk.add("sentence_edits", len(edits))
    chk.add("sentence_edits_accepted_by_spec", sum(1 for v in ev.values() if v["acc"]))
    cases = parse.enumerate_cases(chk, n_tok + 1, "tokens", name="enum_pre", pre=True)
    chk.add("token_level_cases_after_prelude", len(cases))
    chk.add("sentences", sum(1 for c in cases if c["acc"]))
    total += parse.replay_verdicts(chk, th, cases, "c04:pre", chk.seed + 4, prelude=parse.PRELUDE)
    cases = parse.enumerate_cases(chk, n_chunk, "chunks", "all")
    chk.add("chunk_level_cases", len(cases))
    chk.add("sentences", sum(1 for c in cases if c["acc"]))
    total += parse.replay_verdicts(chk, th, cases, "c04:chunks", chk.seed + 1, shadow=0.03)
    cases = parse.enumerate_cases(chk, n_ref, "chunks", "refs", name="enum_refs")
    chk.add("reference_skeleton_cases", len(cases))
    chk.add("sentences", sum(1 for c in cases if c["acc"]))
    total += parse.replay_verdicts(chk, th, cases, "c04:refs", chk.seed + 2)
    # neighbours of generated valid sources, decided by the automaton
    lists = parse.mutants(chk.seed, 1500 if chk.thorough else 250)
    verdict = parse.decide(chk, lists)
    total += parse.replay_decided(chk, th, lists, verdict, "c04:mutants", chk.seed + 3)
    chk.add("mutated_sources", len(lists))
    chk.add("mutated_sources_accepted_by_spec", sum(1 for v in verdict.values() if v["acc"]))
    chk.cov["traces_validated_against_impl"] = total
    chk.cov["exhaustive"] = True
    chk.cov["rule"] = ("TheoParse (LL(1) push-down automaton + static rules + sugar) enumerates every viable prefix of <= %d tokens over 2 "
                       "identifiers, 2 integer classes and 22 other token kinds, every sentence among them and every refused one-token "
                       "extension; every source one token edit away from a sentence; chunk-level skeletons (definitions x calls x arities x labels x literals) to depth %d and reference "
                       "skeletons to depth %d; 1-4 token mutations of generated programs decided by the automaton; every case is compiled "
                       "for real and the verdicts must agree in both directions" % (n_tok, n_chunk, n_ref))
    chk.assumptions += ["duplicate labels / parameter names and user macros are outside the domain (dropped and counted)",
                        "reserved names __INC__/__DEC__ are not generated"]
    log("C04: %d verdicts compared" % total)
