"""C04 - the compiler accepts exactly the programs of the language."""
import parse
from common import build, log
LEVEL = "model_checking"


def long_sources(chk, th):
    from common import run_th
    sizes = (200, 1000, 1023, 1024, 1025, 1500, 3000)
    inputs = [{"i": k, "files": {"m": " ;\n".join(["x := x + 1"] * n) + "\n"}, "main": "m", "watch": 300} for k, n in enumerate(sizes)]
    inputs += [{"i": len(sizes) + k, "files": {"m": " ;\n".join(["x := %d" % (j % 7) for j in range(n)]) + "\n"}, "main": "m", "watch": 300}
               for k, n in enumerate((1025, 3000))]            # the same without the sugar
    recs, rc, err = run_th(th, ["compile"], inputs, timeout=1200)
    got = {x["i"]: x for x in recs if "ok" in x}
    names = ["%d uses of the + sugar" % n for n in sizes] + ["%d plain assignments" % n for n in (1025, 3000)]
    keys = ["c04:long:sugar:%d" % n for n in sizes] + ["c04:long:plain:%d" % n for n in (1025, 3000)]
    for k, nm in enumerate(names):
        x = got.get(k)
        if x is None:
            chk.violation(keys[k] + ":abort", "Theo::compile did not return (exit %s) on a flat source with %s: %s" % (rc, nm, err[-800:]), {"input": nm})
        elif not x["ok"]:
            chk.violation(keys[k], "a macro-free flat source with %s is a sentence of the grammar but is rejected: %s"
                          % (nm, [(e["file"], e["line"], e["msglen"]) for e in x["errors"]][:3]), {"source": "x := x + 1 ; ... (%s)" % nm, "result": x})
    return len(got)


def run(chk):
    th = build("plain")
    n_tok, n_chunk, n_ref = (10, 6, 9) if chk.thorough else (8, 5, 8)
    total = 0
    cases = parse.enumerate_cases(chk, n_tok, "tokens")
    chk.add("token_level_cases", len(cases))
    chk.add("sentences", sum(1 for c in cases if c["acc"]))
    total += parse.replay_verdicts(chk, th, cases, "c04:tokens", chk.seed)
    # one edit away from every sentence: a refused token inside an otherwise complete program (decided by the automaton)
    edits = parse.sentence_edits(cases, chk.seed, per_sentence=150 if chk.thorough else None)
    if len(edits) > 400000:            # thorough tier: a seeded sample of the (millions of) edits of the longer sentences
        import random
        edits = random.Random(chk.seed).sample(edits, 400000)
    ev = parse.decide(chk, edits, name="edits")
    total += parse.replay_decided(chk, th, edits, ev, "c04:edits", chk.seed + 5)
    chk.add("sentence_edits", len(edits))
    chk.add("sentence_edits_accepted_by_spec", sum(1 for v in ev.values() if v["acc"]))
    cases = parse.enumerate_cases(chk, n_tok + 1, "tokens", name="enum_pre", pre=True)
    chk.add("token_level_cases_after_prelude", len(cases))
    chk.add("sentences", sum(1 for c in cases if c["acc"]))
    total += parse.replay_verdicts(chk, th, cases, "c04:pre", chk.seed + 4, prelude=parse.PRELUDE)
    cases = parse.enumerate_cases(chk, n_chunk, "chunks", "all")
    chk.add("chunk_level_cases", len(cases))
    chk.add("sentences", sum(1 for c in cases if c["acc"]))
    total += parse.replay_verdicts(chk, th, cases, "c04:chunks", chk.seed + 1, shadow=0.03)
    cases = parse.enumerate_cases(chk, n_ref, "chunks", "refs", name="enum_refs")
    chk.add("reference_skeleton_cases", len(cases))
    chk.add("sentences", sum(1 for c in cases if c["acc"]))
    total += parse.replay_verdicts(chk, th, cases, "c04:refs", chk.seed + 2)
    # neighbours of generated valid sources, decided by the automaton
    lists = parse.mutants(chk.seed, 1500 if chk.thorough else 250)
    # the names the built-in sugar expands to are ordinary identifiers when the user writes them: a RUN of __INC__ / __DEC__ needs a
    # definition like any other, and a program of that name is called like any other
    for src in ("x := RUN __INC__ WITH x , 1 END", "y := 4 ; x := RUN __DEC__ WITH y , 2 END ; z := x",
                "PROGRAM __INC__ IN a , b DO x0 := 7 END x := RUN __INC__ WITH x , 3 END",
                "PROGRAM __DEC__ IN a DO x0 := a END x := RUN __DEC__ WITH x , 3 END",
                "PROGRAM __DEC__ IN a , b DO x0 := a END x := RUN __DEC__ WITH x , 3 END ; y := x - 1",
                "PROGRAM f IN a DO x0 := RUN __INC__ WITH a , 1 END END x := RUN f WITH 2 END"):
        lists.append(parse.tokenize(src))
    for n in (3, 40):
        lists.append(parse.tokenize(" ; ".join(["x := x + 1"] * n)))
    if chk.thorough:
        # the long instance of the lemma is decided by TheoParse as well, but compiled only in long_sources (where the known finding lives)
        lv = parse.decide(chk, [parse.tokenize(" ; ".join(["x := x + 1"] * 1025))], name="lemma1025")
        if not lv[1]["acc"]:
            from common import Broken
            raise Broken("TheoParse does not accept 1025 assignments joined by ';' - the lemma behind long_sources is wrong")
    verdict = parse.decide(chk, lists)
    total += parse.replay_decided(chk, th, lists, verdict, "c04:mutants", chk.seed + 3)
    # long flat sources: n copies of 'x := x + 1' joined by ';' form a sentence for every n (P -> STMT MOREP, MOREP -> ; P). TheoParse
    # decides the schema for n = 3 and 40 above (thorough: also 1025); for the long instances the verdict is taken from that lemma
    total += long_sources(chk, th)
    chk.add("mutated_sources", len(lists))
    chk.add("mutated_sources_accepted_by_spec", sum(1 for v in verdict.values() if v["acc"]))
    chk.cov["traces_validated_against_impl"] = total
    chk.cov["exhaustive"] = True
    chk.cov["rule"] = ("TheoParse (LL(1) push-down automaton + static rules + sugar) enumerates every viable prefix of <= %d tokens over 2 "
                       "identifiers, 2 integer classes and 22 other token kinds, every sentence among them and every refused one-token "
                       "extension; every source one token edit away from a sentence; chunk-level skeletons (definitions x calls x arities x labels x literals) to depth %d and reference "
                       "skeletons to depth %d; 1-4 token mutations of generated programs decided by the automaton; every case is compiled "
                       "for real and the verdicts must agree in both directions" % (n_tok, n_chunk, n_ref))
    chk.assumptions += ["duplicate labels / parameter names and user macros are outside the domain (dropped and counted)",
                        ]
    log("C04: %d verdicts compared" % total)
