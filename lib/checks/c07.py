"""C07 - stepping and variable inspection are faithful to the source."""
import sem
from common import build, log
LEVEL = "translation_validation"


def run(chk):
    th = build("plain")
    n = 60000 if chk.thorough else 1500
    progs = sem.generate(chk.seed, n, canon=True)
    sem.run_real(chk, th, progs)
    bad = [p for p in progs if "run" in p and not p["run"]["ok"]]
    for p in bad[:5]:
        chk.violation("c07:reject:seed%d" % p["seed"], "a generated well-formed source was rejected by the compiler: %s\n%s"
                      % (p["run"].get("errors"), p["files"]), {"files": p["files"], "main": p["main"], "errors": p["run"].get("errors")})
    acc, nev = sem.validate(chk, progs)
    # model leg: the ideal machine (no real VM) on the real bytecode of the same sources simulates TheoSem
    nref = sem.refine(chk, th, progs[::max(3, len(progs) // 6000)])
    chk.cov["programs_in_model_leg_TheoRefine"] = nref
    stops = sum(len(p["run"]["stops"]) for p in progs if "run" in p and p["run"]["ok"])
    chk.cov.update({"programs": len(progs), "disagreements_checked": stops,
                    "executions_accepted": acc, "trace_events": nev,
                    "rule": "seeded one-statement-per-line sources (0-3 included files, random keyword spellings, +/- sugar, calls, "
                            "loops, whiles, jumps into/out of loops, STOP); every stop of the real stepping run must be TheoSem's "
                            "current line event with the reference value of every user variable of every live activation"})
    p0 = next((p for p in progs if "run" in p and p["run"]["ok"]), None)
    if p0:
        chk.sample({"files": p0["files"], "first_stops": [[s["file"], s["line"]] for s in p0["run"]["stops"][:8]]})
    chk.assumptions += ["reference semantics = TheoSem.tla evaluated by TLC on the generator's AST", "generator/renderer lib/gen.py builds the sources"]
    log("C07: %d programs, %d stops, %d executions accepted" % (len(progs), stops, acc))
