"""C07 - stepping and variable inspection are faithful to the source."""
import sem
from common import build, log
LEVEL = "translation_validation"


def included_twice():
    """fixed sources (independent of the run's seed) in which a file of plain assignments is included twice in a row: its statements
    are executed twice at the same file and line, so stepping must visit those lines twice"""
    import random
    import gen
    out = []
    seed = 0
    while len(out) < 4 and seed < 400:
        p = gen.gen_canon(7000 + seed, nfiles=2, calls=False, gotos=False, whiles=False, diverge=0.0)
        if gen.include_twice(p, random.Random(seed)):
            p["seed"] = "include-twice-%d" % len(out)
            out.append(p)
        seed += 1
    # the smallest instance
    out.append({"files": {"m": 'include "inc"\ninclude "inc"\ny := x\n', "inc": "x := x + 1;\n"}, "main": "m", "canon": True,
                "seed": "include-twice-min",
                "ast": {"routines": [], "mainvars": ["x", "y"], "structured": True, "loop_only": True, "canon": True, "main": [
                    {"k": "assign", "x": "x", "v": {"k": "inc", "x": "x", "c": 1}, "labels": [], "file": "inc", "line": 1},
                    {"k": "assign", "x": "x", "v": {"k": "inc", "x": "x", "c": 1}, "labels": [], "file": "inc", "line": 1},
                    {"k": "assign", "x": "y", "v": {"k": "var", "x": "x"}, "labels": [], "file": "m", "line": 3}]}})
    return out


def run(chk):
    th = build("plain")
    n = 60000 if chk.thorough else 1500
    progs = sem.generate(chk.seed, n, canon=True)
    sem.run_real(chk, th, progs)
    bad = [p for p in progs if "run" in p and not p["run"]["ok"]]
    for p in bad[:5]:
        chk.violation("c07:reject:seed%d" % p["seed"], "a generated well-formed source was rejected by the compiler: %s\n%s"
                      % (p["run"].get("errors"), p["files"]), {"files": p["files"], "main": p["main"], "errors": p["run"].get("errors")})
    acc, nev = sem.validate(chk, progs)
    # a file included twice in a row (fixed instances, one TLC run each)
    tw = included_twice()
    sem.run_real(chk, th, tw)
    acc2, nev2 = sem.validate(chk, tw, name="twice", batches=len(tw))
    chk.cov["sources_with_a_file_included_twice_in_a_row"] = len(tw)
    chk.cov["of_those_accepted"] = acc2
    # model leg: the ideal machine (no real VM) on the real bytecode of the same sources simulates TheoSem
    nref = sem.refine(chk, th, progs[::max(3, len(progs) // 6000)])
    chk.cov["programs_in_model_leg_TheoRefine"] = nref
    stops = sum(len(p["run"]["stops"]) for p in progs if "run" in p and p["run"]["ok"])
    chk.cov.update({"programs": len(progs), "disagreements_checked": stops,
                    "executions_accepted": acc, "trace_events": nev,
                    "rule": "seeded one-statement-per-line sources (0-3 included files, random keyword spellings, +/- sugar, calls, "
                            "loops, whiles, jumps into/out of loops, STOP); every stop of the real stepping run must be TheoSem's "
                            "current line event with the reference value of every user variable of every live activation"})
    p0 = next((p for p in progs if "run" in p and p["run"]["ok"]), None)
    if p0:
        chk.sample({"files": p0["files"], "first_stops": [[s["file"], s["line"]] for s in p0["run"]["stops"][:8]]})
    chk.assumptions += ["reference semantics = TheoSem.tla evaluated by TLC on the generator's AST", "generator/renderer lib/gen.py builds the sources"]
    log("C07: %d programs, %d stops, %d executions accepted" % (len(progs), stops, acc))
