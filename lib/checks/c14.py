"""C14 - the scanner's token stream is faithful to the source text."""
import json
import os

import lexinc
from common import build, log, tlc, require_ok, rundir, tlc_counterexample
LEVEL = "model_checking"


def run(chk):
    ths = {"plain": build("plain"), "flexgen": build("flexgen")}
    # 1. all short strings over the significant alphabet
    L = 4 if chk.thorough else 3
    alpha = "small" if chk.thorough else "full"
    runs = [(3, "full")] + ([(4, "small")] if chk.thorough else [])
    total = 0
    for L, alpha in runs:
        res = tlc("TheoLex", "SPECIFICATION Spec\nINVARIANT Progressing\nCHECK_DEADLOCK FALSE\n", chk.pid, "short%d" % L,
                  env={"LEXLEN": L, "LEXALPHA": alpha, "FRAGS": "/dev/null", "FRAGMOD": 1, "FRAGREM": 0}, timeout=2400, xmx="16g")
        if not require_ok(res, "TheoLex strings"):
            chk.violation("c14:model:" + res.violated, "TheoLex: %s violated\n%s" % (res.violated, tlc_counterexample(res)), {})
        chk.tlc_stats(res)
        total += lexinc.compare_lex(chk, ths, res.cases, "c14:short")
        chk.add("strings_enumerated", len(res.cases))
        res.cases = None
    # 2. pairs of fragments: every keyword spelling, its near misses, multi-word tokens, sigils, quoted names, comments
    frags = lexinc.keyword_fragments()
    fmod = 1 if chk.thorough else 12          # quick: every 12th fragment as the second component (slice chosen by the seed)
    d = rundir(chk.pid, "frag_in")
    fp = os.path.join(d, "frags.json")
    with open(fp, "w") as f:
        json.dump(frags, f)
    res = tlc("TheoLex", "SPECIFICATION FSpec\nINVARIANT FProgressing\nCHECK_DEADLOCK FALSE\n", chk.pid, "frags",
              env={"LEXLEN": 0, "LEXALPHA": "full", "FRAGS": fp, "FRAGMOD": fmod, "FRAGREM": chk.seed % fmod}, timeout=2400, xmx="16g")
    if not require_ok(res, "TheoLex fragments"):
        chk.violation("c14:model:" + res.violated, "TheoLex: %s violated\n%s" % (res.violated, tlc_counterexample(res)), {})
    chk.tlc_stats(res)
    cases = list({json.dumps(c["s"]): c for c in res.cases}.values())
    total += lexinc.compare_lex(chk, ths, cases, "c14:frag")
    chk.add("fragment_pairs", len(cases))
    # 3. include layouts (directive replaced in place by the named file's tokens, file and line labels): TheoInclude, small bound
    res = tlc("TheoInclude", "SPECIFICATION Spec\nINVARIANT DepthOK\nCHECK_DEADLOCK FALSE\n", chk.pid, "incl",
              env={"INCFILES": 3, "INCITEMS": 3 if chk.thorough else 2, "INCCASES": "/dev/null", "INCKIND": "wellformed", "INCLIMIT": 1048576}, timeout=1500, xmx="16g")
    require_ok(res, "TheoInclude layouts")
    chk.tlc_stats(res)
    for v, th in ths.items():
        total += lexinc.compare_include(chk, th, res.cases, "c14:incl:" + v)
    chk.cov["traces_validated_against_impl"] = total
    chk.cov["fragments"] = len(frags)
    chk.cov["exhaustive"] = True
    chk.cov["rule"] = ("TheoLex (maximal munch, rule order of the frozen vocabulary, end-line labelling) enumerates all strings of <= 3 characters "
                       "over 41 significant characters (thorough: <= 4 over 22) and all pairs of %d fragments with 4 separators; each text is scanned "
                       "by the build with the committed lex.yy.c and by the build with a scanner regenerated from lexer.l; kinds, texts, end "
                       "lines, file labels and the single trailing EOF must equal the specification's on both" % len(frags))
    chk.assumptions += ["malformed include directives are C15's business (cases with an INCLUDE token are dropped from the pure tokenisation comparison and counted)"]
    log("C14: %d scanner runs compared" % total)
