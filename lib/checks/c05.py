"""C05 - debugging is transparent."""
from vmfamily import run_family
LEVEL = "model_checking"


def run(chk):
    run_family(chk, invariants=["TypeOK", "Transparent", "BrkSync"], properties=[],
               s2i_fields=["ip", "ops", "data", "views"], trace_fields="osv",
               trace_inv=["TypeOK", "Transparent", "BrkSync"])
