"""C06 - the debugger stops exactly where it was asked to."""
from vmfamily import run_family
LEVEL = "model_checking"


def run(chk):
    run_family(chk, invariants=["TypeOK", "StopExact", "StartNone", "BrkSync"], properties=[],
               s2i_fields=["ip", "ret", "cur", "done", "enabled", "stepping"], trace_fields="erc",
               trace_inv=["TypeOK", "StopExact", "StartNone"])
