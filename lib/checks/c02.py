"""C02 - compilation is total: every input yields a result, never a crash or a hang."""
import json
import os
import random

import gen
import parse
import sem
from common import build, log, NCPU, parallel_th, run_th, rundir, tlc, Broken
LEVEL = "exploration"


def special_inputs():
    S = []

    def add(files, main="m"):
        S.append({"files": files, "main": main})
    add({"m": "x := 1"}, "absent")
    # found by the thorough tier: bounded but very long macro expansion (see the note in the file); short watchdog periods here, the
    # point is the classification "passes still advancing" (no verdict) as opposed to "hang"
    import os
    from common import VERIF
    sf = json.load(open(os.path.join(VERIF, "corpus", "c02", "slow_selffeed.json")))
    S.append({"files": sf["files"], "main": sf["main"], "watch": 20, "ext": 1})
    # file names are arbitrary keys: a supplied file that carries the name of the hidden standard-macro file
    add({"m": "", "__standards__": "x0 := RUN nope WITH 1 END"})
    add({"m": "x := y + 1", "__standards__": ""})
    add({"m": "x := 1; GOTO nowhere", "__standards__": "x0 := 1"})
    add({"m": 'include "__standards__"\nx := 1', "__standards__": "x0 := RUN nope WITH 1 END"})
    add({"__standards__": "x0 := 1 +"}, "__standards__")
    add({"__standards__": "y := RUN g WITH 2 END"}, "__standards__")
    add({"m": "x := 1", "-": "y := RUN g WITH 2 END"}, "-")
    add({"m": 'include "-"', "-": "y := RUN g WITH 2 END\n\n\nGOTO q"})
    add({"m": 'include "#root_file_context"\nGOTO q', "#root_file_context": "GOTO z"})
    add({}, "m")
    add({"m": ""})
    add({"m": "\n\n"})
    add({"m": "// only a comment"})
    add({"m": 'include "e"', "e": ""})
    add({"m": 'include "m"'})
    add({"m": "PROGRAM f IN a DO x0 := a END y := RUN f WITH 1, END"})
    add({"m": "PROGRAM f IN a, b DO x0 := a END y := RUN f WITH 1,, 2 END"})
    add({"m": "PROGRAM f IN a DO x0 := a END y := RUN f WITH , END"})
    add({"m": "PROGRAM f DO x0 := 5 END y := RUN f WITH END"})
    add({"m": "PROGRAM f DO x0 := 5 END"})
    add({"m": "PROGRAM f IN DO x0 := 5 END x := 1"})
    add({"m": "PROGRAM f IN a OUT DO x0 := 5 END x := 1"})
    add({"m": "PROGRAM f IN a, a OUT a DO a := a END y := RUN f WITH 1, 2 END"})
    add({"m": "x := RUN __INC__ WITH x END"})
    add({"m": "x := RUN __DEC__ WITH END"})
    add({"m": "x := RUN __INC__ WITH x, 1, 2 END"})
    add({"m": "x := RUN __INC__ WITH 1, x END"})
    add({"m": "x := y - 2147483648"})
    add({"m": "x := y + 99999999999999999999"})
    add({"m": "x := 00012"})
    add({"m": "$0 := 1; #1 := 2; <P> := 3; x := <V>; <ID>; <INT>; <ARGS>"})
    add({"m": "x := $1; y := #0"})
    add({"m": "DEFINE DEFINE AS x ENDDEF y := 1"})
    add({"m": "DEFINE AS x := 1 END DEFINE x := 2"})
    add({"m": "DEFINE a AS a END DEFINE a"})
    add({"m": "DEFINE a AS a ; a END DEFINE a"})
    add({"m": "DEFINE PRIO 99999999999 a AS x := 1 END DEFINE a"})
    add({"m": "DEFINE inc <ID> AS $0 := $1 + 1 END DEFINE inc x0"})
    add({"m": "DEFINE inc <ID> AS $0 := $99999999999 END DEFINE inc x0"})
    add({"m": "DEFINE <P> ; <P> AS $0 END DEFINE x := 1; y := 2"})
    add({"m": "DEFINE f <ARGS> AS x := 1 END DEFINE f 1, 2"})
    # a macro that inserts a slot twice and matches its own output: the stream doubles with every pass
    # (these reach the 2^20-token bound of the expansion; they go to the plain build directly, see run())
    add({"m": "DEFINE w <V> AS w RUN f WITH $0 , $0 END END DEFINE\nw a\n"})
    S[-1]["slow"] = True
    add({"m": "DEFINE PRIO 3 d <ID> := <V> AS d $0 := RUN g WITH $1 , $1 , $1 END END DEFINE d x := 1"})
    S[-1]["slow"] = True
    add({"m": "DEFINE AS AS AS END DEFINE x := 1"})
    add({"m": "END DEFINE x := 1"})
    add({"m": "x := 1 END END END"})
    add({"m": "LOOP LOOP LOOP"})
    add({"m": "a: b: c: d"})
    add({"m": ";;;;"})
    add({"m": "x := 1;"})
    add({"m": '"unterminated'})
    add({"m": 'include'})
    add({"m": 'include include "x"'})
    full = "DEFINE PRIO 5 <V> PLUS <V> AS RUN add WITH $0 , $1 END END DEFINE PROGRAM add IN a, b OUT a DO LOOP b DO a := a + 1 END END x := 1 PLUS 2"
    toks = full.split(" ")
    for k in range(len(toks)):                    # DEFINE (and everything else) cut off by end of file at each position
        add({"m": " ".join(toks[:k])})
    # uses of a macro BEFORE its definition, the definition cut off by end of file at every position; dangling $k in the body
    for full in ("swap a ; swap b ; DEFINE swap <ID> AS x0 := $1 ; y := $0 END DEFINE",
                 "x := 1 ; twice x ; DEFINE PRIO 7 twice <ID> AS $0 := $0 + $2 ; #0 := $5 END DEFINE"):
        toks = full.split(" ")
        first = toks.index("DEFINE")
        for k in range(first, len(toks) + 1):
            add({"m": " ".join(toks[:k])})
    # long, path-like file names (a short name hides a dangling std::string behind the small-string buffer)
    L1, L2 = "a_rather_long_main_file_name_for_this_test.theo", "library/with/a/long/path/name/included_file.theo"
    add({L1: "x := 1 ; include"}, L1)
    add({L1: 'x := 1 ; include "%s" ; y := 2' % L2, L2: "z := 3 ; include"}, L1)
    add({L1: 'include "%s" include "%s"' % (L2, L2), L2: "include // bare, at the end of an included file"}, L1)
    add({L1: 'include "%s"' % L2, L2: 'include "%s"' % L1}, L1)
    add({L1: 'include "missing/file/with/a/long/name.theo" x := 1'}, L1)
    add({L1: 'include "%s" x := $7' % L2, L2: "DEFINE m <ID> AS $3 END DEFINE m q"}, L1)
    return S


def byte_inputs(seed, n):
    r = random.Random(seed)
    alpha = list(b"abfxPROGEND oi:=;,()+-<>!$#0129\n\t\"/_") + [0xE9, 0x01, 0x7F, 0xFF, 0x00]
    words = [b"PROGRAM", b"END", b"DEFINE", b"AS", b"END DEFINE", b"LOOP", b"DO", b"WHILE", b"!= 0", b"RUN", b"WITH", b":=", b"<P>", b"<V>",
             b"<ARGS>", b"$0", b"#1", b"include \"m\"", b"include \"q\"", b"IF", b"THEN", b"GOTO", b"x", b"f", b"1", b"99999999999", b";", b",", b"IN", b"OUT",
             b"PRIO", b"//", b"\n"]
    out = []
    for i in range(n):
        if i % 2:
            b = bytes(r.choice(alpha) for _ in range(r.randint(0, 40)))
        else:
            b = b" ".join(r.choice(words) for _ in range(r.randint(1, 25)))
        out.append({"hexfiles": {"m": b.hex(), "q": bytes(r.choice(alpha) for _ in range(r.randint(0, 12))).hex()}, "main": "m"})
    return out


def mutated_programs(seed, n):
    """token-level mutations (1-4 deletions / insertions / replacements / swaps) of generated sources with macros and includes"""
    r = random.Random(seed)
    out = []
    for i in range(n):
        p = gen.gen_free(seed * 3571 + i, nfiles=r.choice([0, 1, 2]))
        files = dict(p["files"])
        for _ in range(3):
            f = dict(files)
            victim = r.choice(sorted(f))
            words = f[victim].split(" ")
            for _ in range(r.randint(1, 4)):
                if not words:
                    break
                q = r.random()
                pos = r.randrange(len(words))
                if q < 0.35:
                    del words[pos]
                elif q < 0.6:
                    words.insert(pos, r.choice(words + ["END", ";", ",", "DEFINE", "AS", "$0", "#0", "<P>", "99999999999", "(", "END DEFINE"]))
                elif q < 0.8:
                    words[pos] = r.choice(words + ["END", "DO", ":=", "RUN", "WITH", "1", "x"])
                elif len(words) > 1:
                    a = r.randrange(len(words) - 1)
                    words[a], words[a + 1] = words[a + 1], words[a]
            f[victim] = " ".join(words)
            out.append({"files": f, "main": p["main"]})
    return out


def default_stack(chk, th):
    """flat legal sources of growing length compiled on a thread with the platform's default 8 MB stack (plain build): the harness's
    1 GB stack would hide recursion that grows with the length of a statement sequence"""
    n = 0
    for size in (2000, 8000, 60000, 200000):
        src = ";\n".join("x%d := %d" % (j % 9, j % 5) for j in range(size)) + "\n"
        recs, rc, err = run_th(th, ["compile"], [{"i": 0, "files": {"m": src}, "main": "m", "stack_mb": 8, "watch": 600}], timeout=900)
        got = next((x for x in recs if "ok" in x), None)
        n += 1
        if got is None:
            kind = "stack overflow (SIGSEGV)" if rc in (-11, 139) else "exit %s" % rc
            chk.violation("c02:stack8m:flat:%d" % size, "Theo::compile did not return normally (%s) on a flat legal source of %d assignments (%d KB) "
                          "on a thread with the default 8 MB stack" % (kind, size, len(src) // 1024), {"statements": size, "stack_mb": 8})
        elif not got["ok"]:
            chk.violation("c02:stack8m:reject:%d" % size, "a flat legal source of %d assignments was rejected: %s" % (size, got["errors"][:2]), {"statements": size})
    return n


def run(chk):
    tha = build("asan")
    r = random.Random(chk.seed)
    n_tok, n_pre, n_chunk, n_ref = (9, 9, 5, 8) if chk.thorough else (7, 8, 4, 7)
    inputs = []
    for cases, pre in ((parse.enumerate_cases(chk, n_tok, "tokens"), ""),
                       (parse.enumerate_cases(chk, n_pre, "tokens", name="enum_pre", pre=True), parse.PRELUDE),
                       (parse.enumerate_cases(chk, n_chunk, "chunks", "all"), ""),
                       (parse.enumerate_cases(chk, n_ref, "chunks", "refs", name="enum_refs"), "")):
        for c in cases:
            src = pre + parse.render(parse._seq(c["toks"]), r)
            inputs.append({"files": {"m": src}, "main": "m"})
            if not c["alive"] and r.random() < 0.3:       # a refused token followed by a valid continuation: recovery paths
                inputs.append({"files": {"m": src + " ; x := 1 END y := RUN f WITH 1 END"}, "main": "m"})
    chk.add("grammar_automaton_inputs", len(inputs))
    sp = special_inputs()
    inputs += sp
    by = byte_inputs(chk.seed, 6000 if chk.thorough else 1500)
    inputs += by
    mu = mutated_programs(chk.seed, 2500 if chk.thorough else 500)
    inputs += mu
    st = [gen.gen_static_error(chk.seed * 811 + i) for i in range(3000 if chk.thorough else 600)]
    inputs += st
    chk.add("multi_file_static_error_inputs", len(st))
    chk.add("special_inputs", len(sp))
    chk.add("byte_string_inputs", len(by))
    chk.add("mutated_program_inputs", len(mu))
    for i, x in enumerate(inputs):
        x["i"] = i
    # run everything on the ASan/UBSan build (leaks reported at process exit), 1 GB stack per compilation.
    # Work is bounded by input size x the 1024-pass budget, which under ASan can still mean minutes for a mutated macro set that
    # happens to diverge; an input that exceeds the per-input watchdog there is therefore re-run on the plain build with a
    # generous limit (x50 over the measured worst case) before it is called a hang.
    th_plain = build("plain")
    events = {}
    progressing = []
    slow = [x for x in inputs if x.get("slow")]
    todo = [x for x in inputs if not x.get("slow")]
    rounds = 0
    while todo and rounds < 6:
        rounds += 1
        again = []
        for recs, rc, err, part in parallel_th(tha, ["compile"], todo, chunks=NCPU * 2, timeout=3000):
            for x in recs:
                if "ok" in x:
                    events[x["i"]] = x
            if rc == 0:
                continue
            begun = [x["begin"] for x in recs if "begin" in x]
            unfinished = [b for b in begun if b not in events]
            bad = inputs[unfinished[-1]] if unfinished else None
            if rc == 76 and bad is not None:
                # macro expansion still advancing through its passes after three watchdog periods: given up, no verdict either way -
                # unless more passes were begun than the budget allows
                rec = next((x for x in recs if "slow" in x), {})
                if rec.get("passes", 0) > 1024:
                    chk.violation("c02:budget:%s" % json.dumps(bad, sort_keys=True)[:300], "Theo::compile began %d macro passes on one input (budget 1024): %s"
                                  % (rec["passes"], json.dumps(bad)[:600]), {"input": bad})
                progressing.append((bad, rec.get("passes")))
                again += [x for x in part if x["i"] not in events and x["i"] != bad["i"]]
                continue
            if rc == 75 and bad is not None:
                slow.append(bad)
                again += [x for x in part if x["i"] not in events and x["i"] != bad["i"]]
                continue
            kind = ("timeout" if rc in (-9, 75) else "leak" if "LeakSanitizer" in err else
                    "sanitizer" if ("Sanitizer" in err or "runtime error" in err) else "crash")
            chk.violation("c02:abort:%s:%s" % (kind, json.dumps(bad, sort_keys=True)[:300] if bad else "chunk"),
                          "Theo::compile did not return normally (%s, exit %s) %s: %s"
                          % (kind, rc, ("on input %s" % json.dumps(bad)[:600]) if bad else "in a batch of %d inputs (reported at process exit)" % len(part),
                             err[-2500:]), {"kind": kind, "input": bad, "stderr": err[-5000:]})
        todo = again
    for bad in slow:
        recs, rc, err = run_th(th_plain, ["compile"], [dict(bad, watch=1000, ext=0)], timeout=1100)
        got = next((x for x in recs if "ok" in x), None)
        if got is not None and rc == 0:
            events[bad["i"]] = got
        elif rc == 76:
            progressing.append((bad, next((x for x in recs if "slow" in x), {}).get("passes")))
        else:
            chk.violation("c02:abort:timeout:%s" % json.dumps(bad, sort_keys=True)[:300],
                          "Theo::compile did not return within 120 s on the sanitizer build nor within 1000 s on the plain build, and no macro pass was completed in that time (exit %s), on input %s"
                          % (rc, json.dumps(bad)[:800]), {"kind": "timeout", "input": bad})
    chk.add("inputs_slower_than_watchdog_on_sanitizer_build", len(slow))
    chk.add("inputs_given_up_while_macro_passes_were_advancing", len(progressing))
    if progressing:
        chk.sample({"given_up_while_progressing": progressing[0][0], "passes_begun": progressing[0][1]})
    # TLC validates the result shapes (TheoIface!ResultOK), in parallel batches
    evs = []
    for i in sorted(events):
        x = events[i]
        evs.append({"e": "compile", "input": i, "ok": x["ok"], "nerrors": len(x["errors"]),
                    "errors": [{"t": e["t"], "file": e["file"], "line": e["line"], "msglen": e["msglen"]} for e in x["errors"][:300]],
                    "files": x["files"], "requests": x["requests"]})
    d = rundir(chk.pid, "iface_in")
    nb = NCPU
    cfg = "SPECIFICATION Spec\nCONSTRAINT Progress\nPOSTCONDITION Accepted\nCHECK_DEADLOCK FALSE\n"
    from concurrent.futures import ThreadPoolExecutor

    def one(b):
        part = evs[b::nb]
        tp = os.path.join(d, "t%d.ndjson" % b)
        with open(tp, "w") as f:
            for ev in part:
                f.write(json.dumps(ev, separators=(",", ":")) + "\n")
        res = tlc("TheoIface", cfg, chk.pid, "iface%d" % b, env={"TRACE": tp}, workers=1, timeout=1500, xmx="4g", deque=True)
        return res, part
    with ThreadPoolExecutor(max_workers=nb) as ex:
        results = list(ex.map(one, range(nb)))
    accepted = 0
    import re
    for res, part in results:
        if res.timed_out or res.error:
            raise Broken("TheoIface: %s" % (res.error or "timeout"))
        chk.add("states", res.distinct)
        chk.add("transitions", res.generated)
        if res.violated is None:
            accepted += len(part)
            continue
        m = re.search(r'"maxl", (\d+), "of"', res.out)
        at = int(m.group(1)) if m else 1
        bad = part[at - 1] if 0 < at <= len(part) else None
        accepted += at - 1
        chk.violation("c02:shape:%s" % json.dumps(inputs[bad["input"]], sort_keys=True)[:300] if bad else "c02:shape",
                      "compilation result violates ResultOK (generated_correctly <=> no errors; every error has a message and a location in a "
                      "supplied file / __standards__ / '-'): %s for input %s" % (json.dumps(bad)[:800], json.dumps(inputs[bad["input"]])[:800] if bad else None),
                      {"event": bad, "input": bad and inputs[bad["input"]]})
    # macro extraction with its error recovery: every short token stream, TheoExtract against Theo::extract_macros (sanitizer build)
    import x01
    nx, _ = x01.extract_leg(chk, tha, 6 if chk.thorough else 5)
    chk.add("extraction_streams_compared_with_TheoExtract", nx)
    chk.add("flat_sources_on_default_stack", default_stack(chk, th_plain))
    chk.cov["evaluations"] = len(inputs)
    shapes = {(e["ok"], tuple((x["t"], x["file"] == "-", x["file"] == "__standards__") for x in e["errors"][:3])) for e in evs}
    chk.cov["distinct_nontrivial"] = len(shapes)
    chk.cov["results_accepted_by_spec"] = accepted
    chk.cov["rule"] = ("inputs: every state of the TheoParse grammar automaton within the bounds (sentences, viable prefixes cut off by EOF, "
                       "refused one-token extensions, also followed by a valid continuation), hand-written truncations and stray-token "
                       "inputs, DEFINE cut off at every position, random byte strings and word soups, 1-4 token mutations of generated "
                       "programs with macros and includes, generated multi-file sources whose only faults are static (unset mark, unknown program); all compiled on the ASan/UBSan build with a 1 GB stack; non-trivial/distinct = "
                       "distinct result shapes (ok flag, first three error types and location classes)")
    chk.sample({"input": inputs[len(inputs) // 2], "result": evs[len(evs) // 2] if evs else None})
    chk.assumptions += ["inputs <= 64 KB", "leaks are observed by LeakSanitizer at process exit per batch",
                        "TheoIface.tla (ResultOK) evaluated by TLC on one event per compilation"]
    log("C02: %d inputs, %d results accepted, %d distinct shapes" % (len(inputs), accepted, len(shapes)))
