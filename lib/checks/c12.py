"""C12 - ambiguous macro patterns are rejected, deterministic ones are accepted."""
import json
from concurrent.futures import ThreadPoolExecutor

import lexinc
from common import build, log, tlc, require_ok, parallel_th
LEVEL = "model_checking"

TEXT = {"ID": "<ID>", "INT": "<INT>", "VALUE": "<V>", "ARGS": "<ARGS>", "P": "<P>", "+": "+", ";": ";", ",": ",", "end": "END", "id": "foo", "(": "("}
INST = {"ID": "q", "INT": "7", "VALUE": "q", "ARGS": "q", "P": "q := 7", "+": "+", ";": ";", ",": ",", "end": "END", "id": "foo", "(": "("}
NON_LR = 7          # ParseError::MACRO_COMPILE_NON_LR
K = lexinc.KIND


def run(chk):
    th = build("plain")
    lens = [(1, 1), (2, 1), (3, 1), (4, 1)] + ([(5, 6)] if chk.thorough else [])
    if not chk.thorough:
        lens[3] = (4, 2)                     # quick: half of the 14641 patterns of length 4, slice chosen by the seed

    def one(lm):
        L, mod = lm
        return tlc("TheoPattern", "SPECIFICATION Spec\nCHECK_DEADLOCK FALSE\n", chk.pid, "pat%d" % L,
                   env={"PATLEN": L, "PATMOD": mod, "PATREM": chk.seed % mod}, workers=8 if L >= 4 else 2, timeout=3000, xmx="8g")
    with ThreadPoolExecutor(max_workers=3) as ex:
        results = list(ex.map(one, lens))
    cases = []
    for res in results:
        require_ok(res, "TheoPattern")
        chk.tlc_stats(res)
        cases += res.cases
    cases = list({" ".join(c["pat"]): c for c in cases}.values())
    inputs = []
    for i, c in enumerate(cases):
        pat = " ".join(TEXT[x] for x in c["pat"])
        inst = " ".join(INST[x] for x in c["pat"])
        # unrelated usable macros are defined before and after the pattern under test
        # ... and a second, always ambiguous macro (it ends in a statement-sequence slot) directly behind the pattern under test
        # every second rejected pattern shares its priority with the usable macro defined before it (a rejected macro must not slip into
        # the priority class of an accepted one); accepted patterns keep the lowest priority so that the unrelated macros go first
        head = "DEFINE PRIO 5" if (c["conflict"] and i % 2) else "DEFINE"
        defs = ("// macro library\n\nDEFINE PRIO 5 UNREL AS ) ) END DEFINE\n%s\n  %s\nAS ) END DEFINE\n"
                "DEFINE PRIO 3 AMBIG <P> AS ) END DEFINE\nDEFINE PRIO 5 UNRELB AS ) ) ) END DEFINE\n" % (head, pat))
        inputs.append({"i": i, "files": {"m": 'include "defs"\n%s\nUNREL\nUNRELB\n' % inst, "defs": defs}, "main": "m", "passes": [64]})
        c["_inst"] = inst
    got = {}
    for recs, rc, err, part in parallel_th(th, ["macro"], inputs, timeout=3000):
        for r in recs:
            if "runs" in r:
                got[r["i"]] = r
        if rc != 0:
            begun = [r["begin"] for r in recs if "begin" in r]
            bad = inputs[begun[-1]] if begun else None
            chk.violation("c12:abort:%s" % (bad and bad["files"]["defs"]), "macro engine aborted (exit %s) on %s: %s" % (rc, bad, err[-1500:]), {"input": bad})
    n = 0
    for i, c in enumerate(cases):
        r = got.get(i)
        if r is None:
            continue
        n += 1
        run0 = r["runs"][0]
        allnonlr = [e for e in run0["errs"] if e[0] == NON_LR]
        kinds = [t["k"] for t in run0["toks"] if t["k"] != K["T_EOF"]]
        problems = []
        # the fixed ambiguous macro directly behind the pattern is always reported (its first token stands at defs:7)
        if not any((e[1], e[2]) == ("defs", 7) for e in allnonlr):
            problems.append("the ambiguous macro defined directly behind the pattern under test was not reported as non-linear")
        nonlr = [e for e in allnonlr if (e[1], e[2]) != ("defs", 7)]
        if c["conflict"]:
            if not nonlr:
                problems.append("pattern is not prefix-deterministic (canonical LR(1) conflict) but no non-linear error was reported")
            elif any((e[1], e[2]) != ("defs", 5) for e in nonlr):
                problems.append("non-linear error reported at %s, the pattern's first token stands at defs:5" % [(e[1], e[2]) for e in nonlr])
            if kinds[-5:] != [K["PAREN_CLOSE"]] * 5:
                problems.append("an unrelated macro (defined before / after the rejected one) was not applied")
            ninst = len(c["_inst"].split(" "))
            if len(kinds) != ninst + 5:
                problems.append("a rejected macro's use was rewritten (%d tokens left of %d)" % (len(kinds) - 5, ninst))
        else:
            if nonlr:
                problems.append("pattern is prefix-deterministic but was reported as non-linear")
            elif kinds != [K["PAREN_CLOSE"]] * 6:
                problems.append("accepted macro: expected its use and the unrelated macros to be rewritten to six ')', got kinds %s" % kinds)
            if len(run0["errs"]) > len(allnonlr):
                problems.append("unexpected errors %s" % run0["errs"])
        if problems:
            chk.violation("c12:%s" % " ".join(c["pat"]), "pattern  %s  : %s" % (" ".join(TEXT[x] for x in c["pat"]), "; ".join(problems)),
                          {"pattern": c["pat"], "input": inputs[i], "result": r})
    # "is reported" at the public entry point: the same files through Theo::compile (every 4th pattern, slice by seed, and a program
    # that stays valid when the rejected macro is not applied, so that only the macro error can mark the result incorrect)
    import macro
    items = []
    for i, c in enumerate(cases):
        r = got.get(i)
        if r is None or i % 4 != chk.seed % 4:
            continue
        items.append((inputs[i]["files"], "m", [(e[1], e[2]) for e in r["runs"][0]["errs"]]))
        pat = " ".join(TEXT[x] for x in c["pat"])
        if c["conflict"] and len(items) % 3 == 0:
            items.append(({"m": "DEFINE\n  %s\nAS ) END DEFINE\nx := 1\n" % pat}, "m", [("m", 2)]))
    ne = macro.through_compile(chk, th, items, "c12")
    chk.add("patterns_through_compile", ne)
    chk.cov["traces_validated_against_impl"] = n
    chk.cov["patterns"] = len(cases)
    chk.cov["patterns_with_conflict"] = sum(1 for c in cases if c["conflict"])
    chk.cov["exhaustive"] = True
    chk.cov["rule"] = ("all patterns of <= 3 symbols and %s of length 4 over the five slot kinds and six literal kinds (operator, ';', ',', END, a literal "
                       "identifier, '('); canonical LR(1) prefix-mode conflict verdict from TLC; each pattern is defined in an included file next to "
                       "an unrelated usable macro and used once: non-linear error at the pattern's first token iff conflict, rejected use left "
                       "alone, unrelated macro applied in both cases, accepted use rewritten; a quarter of the patterns also through Theo::compile "
                       "(the non-linear errors must reach the caller and mark the result incorrect)" % ("all" if chk.thorough else "half (slice by seed)"))
    k = len(cases) // 2
    chk.sample({"pattern": cases[k]["pat"], "conflict": cases[k]["conflict"], "lr1_states": cases[k]["states"], "source": inputs[k]["files"]})
    log("C12: %d patterns compared" % n)
