"""C11 - macro expansion always terminates within its pass budget."""
from concurrent.futures import ThreadPoolExecutor

import lexinc
import macro
from common import build, log, run_th
LEVEL = "model_checking"

FAMILIES = ["selfrep", "grow", "mutual", "finite", "prefix1", "temps", "erase"]


def run(chk):
    th = build("plain")
    total = 0
    budgets = range(0, 9) if chk.thorough else range(0, 7)
    L = 5 if chk.thorough else 3
    jobs = [(fam, b) for fam in FAMILIES for b in budgets]
    macros = {fam: macro.family_macros(chk, fam) for fam in FAMILIES}
    with ThreadPoolExecutor(max_workers=4) as ex:
        results = list(ex.map(lambda fb: (fb, macro.enumerate_paths(chk, fb[0], L, fb[1])), jobs))
    byfam = {}
    for (fam, b), cases in results:
        byfam.setdefault(fam, []).extend(cases)
    for fam, cases in byfam.items():
        total += macro.replay(chk, th, fam, macros[fam], cases, "c11")
        chk.add("rewriting_paths", len(cases))
        chk.add("paths_exhausting_budget", sum(1 for c in cases if c["err"] == "must"))
        chk.add("paths_needing_exactly_the_budget", sum(1 for c in cases if c["err"] == "may"))
    # through the compiler: a source whose expansion is unfinished after the 1024-pass budget must not be passed on as correct;
    # the growing family bounds the stream by budget x body length (checked at budget 1024 directly on apply_macros)
    srcs = [("selfrep", "DEFINE a AS a END DEFINE\nx := 1; a"), ("grow", "DEFINE g AS x := 1 ; g END DEFINE\ng"),
            ("mutual", "DEFINE PRIO 3 p AS q END DEFINE DEFINE PRIO 7 q AS p ; x := 1 END DEFINE\nx := 2; p"),
            ("finite", "DEFINE t AS x := 1 END DEFINE\nt ; t ; t"),
            # self-reproducing, and what is left when the budget runs out is a valid program: only the budget error can mark it incorrect
            ("selfvalid", "DEFINE a := 1 AS a := 1 END DEFINE\na := 1; b := a"),
            # inserts its slot twice and matches its own output: without a bound on the stream it doubles with every pass
            ("doubling", "DEFINE w <V> AS w RUN f WITH $0 , $0 END END DEFINE\nw a"),
            # the same, and what is left when the stream bound stops the expansion is a valid program
            ("doubling_valid", "PROGRAM f IN a, b DO x0 := a END\nDEFINE big := <V> AS big := RUN f WITH $0 , $0 END END DEFINE\nbig := 1"),
            # a rejected (non-linear) macro next to a runaway one: both errors are due, the budget error must not be swallowed
            ("selfvalid_with_rejected", "DEFINE bad <P> AS $0 END DEFINE\nDEFINE a := 1 AS a := 1 END DEFINE\na := 1")]
    recs, rc, err = run_th(th, ["compile"], [{"i": i, "files": {"m": s}, "main": "m", "watch": 300} for i, (_, s) in enumerate(srcs)], timeout=900)
    got = {r["i"]: r for r in recs if "ok" in r}
    for i, (nm, s) in enumerate(srcs):
        r = got.get(i)
        if r is None:
            chk.violation("c11:compile:%s" % nm, "compile did not return within the time limit on %r (exit %s)" % (s, rc), {"source": s})
        elif nm == "selfvalid_with_rejected" and all((e["file"], e["line"]) == ("m", 1) for e in r["errors"]):
            chk.violation("c11:compile:%s" % nm, "compile reports only the non-linear macro (errors at %s) for %r: the expansion of the other macro is "
                          "unfinished after the whole budget and no too-many-substitutions error is reported"
                          % ([(e["file"], e["line"]) for e in r["errors"]], s), {"source": s, "result": r})
        elif (nm == "finite") != r["ok"]:
            chk.violation("c11:compile:%s" % nm, "compile returned ok=%s for %r: an unfinished expansion must be marked incorrect, a finished one not"
                          % (r["ok"], s), {"source": s, "result": r})
    big = {"i": 0, "files": {"m": "DEFINE g AS x := 1 ; g END DEFINE\ng\n"}, "main": "m", "passes": [1024]}
    recs, rc, err = run_th(th, ["macro"], [big], timeout=600)
    r = next((x for x in recs if "runs" in x), None)
    if r is None:
        chk.violation("c11:budget1024", "apply_macros with budget 1024 did not return (exit %s)" % rc, {"input": big})
    else:
        n = len(r["runs"][0]["toks"])
        maxerr = any(e[0] == macro.MAX_PASSES for e in r["runs"][0]["errs"])
        if n > 2 + 1024 * 4 or not maxerr:
            chk.violation("c11:budget1024", "budget 1024 on the growing macro: %d tokens (bound %d), error reported: %s" % (n, 2 + 1024 * 4, maxerr), {"input": big})
        chk.cov["tokens_after_1024_passes"] = n
    chk.cov["traces_validated_against_impl"] = total
    chk.cov["exhaustive"] = True
    chk.cov["rule"] = ("TheoMacro with budgets 1..6 on self-reproducing (a -> a), growing (a -> a ; a), mutually recursive (two priorities), finite "
                       "and ordinary families, all streams of <= %d tokens: PassBound and GrowthBound in the model; the k-series of apply_macros must "
                       "follow a specification path (so never more than `budget` steps), the too-many-substitutions error is required when a match "
                       "remains, forbidden when rewriting ended early, optional when exactly the budget was needed; compile() on divergent macro "
                       "sets must return incorrect; budget 1024 on the growing family" % L)
    log("C11: %d stream/budget cases compared" % total)
