"""C18 - compilation and execution are deterministic and share no state."""
import json
import os
import random
import re

import sem
import vm
from common import build, log, run_th, rundir, tlc, Broken, NCPU
LEVEL = "exploration"


def run(chk):
    th = build("plain")
    tht = build("tsan")
    r = random.Random(chk.seed)
    # the input pool: generated programs (macros, includes, loops), erroneous inputs, and near-duplicates that differ only in
    # where a macro definition stands (same macro text at another line / in another file)
    npool = 60 if chk.thorough else 16
    progs = sem.generate(chk.seed + 180, npool, canon=False)
    pool = [{"files": p["files"], "main": p["main"]} for p in progs]
    base = 'include "lib"\nREPEAT 2 TIMES x := x + 1 END; y := x\n'
    lib = "DEFINE REPEAT <INT> TIMES <P> END AS #0 := $0 ; LOOP #0 DO $1 END END DEFINE\n"
    pool += [{"files": {"m": base, "lib": lib}, "main": "m"},
             {"files": {"m": "// moved\n" + base, "lib": lib}, "main": "m"},
             {"files": {"m": base.replace("lib", "lib2"), "lib2": "\n\n" + lib}, "main": "m"},
             {"files": {"m": "x := 2; LOOP x DO LOOP x DO y := y + 1 END END"}, "main": "m"},
             {"files": {"m": "LOOP a DO LOOP b DO LOOP c DO x := x + 1 END END END; LOOP a DO z := 1 END"}, "main": "m"},
             {"files": {"m": "x := RUN nope WITH 1 END"}, "main": "m"},
             {"files": {"m": "x := ; LOOP"}, "main": "m"},
             {"files": {"m": 'include "gone"\nx := 1'}, "main": "m"},
             # rejected inputs that drive library calls into their error paths (strtol range errors, diagnostics tables)
             {"files": {"m": "x := 99999999999999999999; y := x + 1"}, "main": "m"},
             {"files": {"m": "DEFINE PRIO 99999999999999999999 nop AS x := 1 END DEFINE nop"}, "main": "m"},
             {"files": {"m": "DEFINE inc <ID> AS $0 := $99999999999999999999 END DEFINE inc x"}, "main": "m"},
             {"files": {"m": "DEFINE unclosed <ID> AS $0 := 1"}, "main": "m"},
             {"files": {"m": "LOOP x DO y := 1"}, "main": "m"},
             {"files": {"m": "x := 1; y := x + 2; z := y - 1"}, "main": "m"}]
    # 1. reference: CompileFn[input], each in a fresh single-threaded process
    ref = []
    for k, x in enumerate(pool):
        recs, rc, err = run_th(th, ["compile", "--digest"], [dict(x, i=k)], timeout=120)
        d = next((q for q in recs if "digest" in q), None)
        if d is None:
            raise Broken("reference compilation of pool input %d failed: %s" % (k, err[-500:]))
        ref.append(d["digest"])
    chk.cov["pool_inputs"] = len(pool)
    chk.cov["distinct_reference_results"] = len(set(ref))
    # 2. sequential order dependence: the pool compiled in several orders inside one process (plain build)
    nseq = 0
    for rnd in range(6 if chk.thorough else 3):
        order = list(range(len(pool)))
        r.shuffle(order)
        order = order + order[:len(order) // 2]
        recs, rc, err = run_th(th, ["compile", "--digest"], [dict(pool[k], i=j) for j, k in enumerate(order)], timeout=600)
        got = {q["i"]: q for q in recs if "digest" in q}
        for j, k in enumerate(order):
            nseq += 1
            if j in got and got[j]["digest"] != ref[k]:
                chk.violation("c18:seq:%d" % k, "compiling pool input %d after %s gave a different result than in a fresh process; input: %s"
                              % (k, order[:j][-4:], json.dumps(pool[k])[:600]), {"input": pool[k], "order": order[:j + 1]})
    chk.cov["sequential_compilations_compared"] = nseq
    # 3. concurrent: threads compile pool inputs and drive private VMs; ThreadSanitizer build; merged log validated by TheoSys,
    #    per-instance logs by TheoVMTrace
    d = rundir(chk.pid, "sys_in")
    rp = os.path.join(d, "ref.json")
    with open(rp, "w") as f:
        json.dump(ref, f)
    okprogs = vm.compile_progs_lenient(th, [("pool%d" % k, x) for k, x in enumerate(pool)])
    rounds = 25 if chk.thorough else 3
    nevents = 0
    nacc = 0
    for rnd in range(rounds):
        job = {"pool": pool, "threads": r.choice([2, 4, 8]), "ops": 10 if chk.thorough else 6, "seed": chk.seed * 31 + rnd, "calls": 50}
        recs, rc, err = run_th(tht, ["sys"], [job], timeout=900)
        if rc != 0 or "ThreadSanitizer" in err:
            kind = "data race (ThreadSanitizer)" if "ThreadSanitizer" in err else "crash/timeout (exit %s)" % rc
            m = re.search(r"WARNING: ThreadSanitizer: data race.*?(?=\n\n|\Z)", err, re.S)
            chk.violation("c18:abort:%s" % kind.split(" ")[0], "%s while %d threads compiled and executed concurrently:\n%s"
                          % (kind, job["threads"], (m.group(0) if m else err)[-3000:]), {"job": {k: v for k, v in job.items() if k != "pool"}, "stderr": err[-6000:]})
            continue
        evs = [e for e in recs if "e" in e]
        nevents += len(evs)
        tp = os.path.join(d, "sys%d.ndjson" % rnd)
        with open(tp, "w") as f:
            for e in evs:
                slim = {k: e[k] for k in ("e", "t", "seq", "input", "digest", "inst") if k in e}
                f.write(json.dumps(slim, separators=(",", ":")) + "\n")
        res = tlc("TheoSys", "SPECIFICATION Spec\nCONSTRAINT Progress\nPOSTCONDITION Accepted\nCHECK_DEADLOCK FALSE\n", chk.pid, "sys%d" % rnd,
                  env={"TRACE": tp, "REF": rp}, workers=1, timeout=900, deque=True)
        if res.timed_out or res.error:
            raise Broken("TheoSys: %s" % (res.error or "timeout"))
        chk.add("states", res.distinct)
        chk.add("transitions", res.generated)
        if res.violated is not None:
            m = re.search(r'"maxl", (\d+), "of"', res.out)
            at = int(m.group(1)) if m else 1
            bad = evs[at - 1] if 0 < at <= len(evs) else None
            inp = pool[bad["input"]] if bad and "input" in bad else None
            chk.violation("c18:sys:%s" % (bad and bad.get("input")), "TheoSys cannot explain event %d of a %d-thread run: %s (a compile result that differs from "
                          "CompileFn[input], events out of program order, or an instance touched by two threads); input %s"
                          % (at, job["threads"], json.dumps(bad)[:400], json.dumps(inp)[:500]), {"event": bad, "input": inp})
        # per-instance projections: each must be a behaviour of TheoVM
        insts = {}
        for e in evs:
            if "inst" in e:
                insts.setdefault(e["inst"], []).append({k: v for k, v in e.items() if k not in ("t", "inst", "seq")})
        execs = [insts[k] for k in sorted(insts)]
        # program indices in the events are pool indices + 1; only accepted programs have instances
        nacc += vm.validate_traces(chk, execs, okprogs, "osgercv", ["TypeOK", "BrkSync", "Transparent", "StopExact", "FramesExact"], name="inst%d" % rnd)
        chk.add("vm_instances_validated", len(execs))
    chk.cov["evaluations"] = nseq + nevents
    chk.cov["distinct_nontrivial"] = len(set(ref)) + chk.cov.get("vm_instances_validated", 0)
    chk.cov["concurrent_events"] = nevents
    chk.cov["vm_instance_traces_accepted"] = nacc
    chk.cov["rule"] = ("pool of %d inputs (generated programs with macros/includes/loops, erroneous inputs, near-duplicates that move a macro "
                       "definition); CompileFn recorded in a fresh process per input; the pool compiled in shuffled orders in one process; 2-8 "
                       "threads on the ThreadSanitizer build compile pool inputs and drive private VMs with random debugger histories: merged log "
                       "validated by TheoSys (every result = CompileFn[input], program order, instance ownership), every instance's log by "
                       "TheoVMTrace; non-trivial/distinct = distinct reference results + VM instances validated" % len(pool))
    chk.sample({"pool_input": pool[len(progs)], "reference_digest": ref[len(progs)]})
    chk.assumptions += ["a data race is observable only through ThreadSanitizer on the schedules that occur (3-6 multi-threaded rounds per run)",
                        "digests are FNV-1a hashes plus length of the serialised CodegenResult"]
    log("C18: %d sequential compilations, %d concurrent events, %d instance traces accepted" % (nseq, nevents, nacc))
