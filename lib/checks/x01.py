"""X01 (extension beyond the listed properties): macro extraction and its error recovery, TheoExtract.tla vs Theo::extract_macros."""
import lexinc
from common import build, log, tlc, require_ok, parallel_th, tlc_counterexample
LEVEL = "model_checking"

ERR = {"MACRO_EXTRACT_EXPECT": 4, "MACRO_EXTRACT_NESTED": 5, "MACRO_EXTRACT_EMPTY_DEFINE": 6, "RANGE": 10}


def _seq(x):
    if isinstance(x, dict):
        return [x[k] for k in sorted(x, key=int)] if x else []
    return list(x or [])


def texts(toks):
    return [bytes.fromhex(t["x"]).decode("latin1") for t in toks]


def run(chk):
    th = build("asan")
    L = 6 if chk.thorough else 5
    n, cases = extract_leg(chk, th, L)
    chk.cov["traces_validated_against_impl"] = n
    chk.cov["exhaustive"] = True
    chk.cov["rule"] = ("all token streams of <= %d tokens over DEFINE, PRIO, an integer, AS, ENDDEF, an identifier, $0, $1, <V>: passed-on tokens, "
                       "kept definitions (priority, pattern, body with invalid insertions replaced) and errors by type and position" % L)
    chk.sample({"stream": _seq(cases[len(cases) // 2]["toks"]), "expected": {k: cases[len(cases) // 2][k] for k in ("out", "errs", "macros")}})
    log("X01: %d streams compared" % n)


def extract_leg(chk, th, L):
    """all token streams of <= L tokens through TheoExtract and Theo::extract_macros; returns (#compared, cases)"""
    res = tlc("TheoExtract", "SPECIFICATION Spec\nINVARIANT OutOK PosBound\nPROPERTY Terminates\nCHECK_DEADLOCK FALSE\n", chk.pid, "enum",
              env={"EXLEN": L}, timeout=3000, xmx="16g")
    if not require_ok(res, "TheoExtract"):
        chk.violation("x01:model:" + res.violated, "TheoExtract: %s violated\n%s" % (res.violated, tlc_counterexample(res, 2500)), {})
    chk.tlc_stats(res)
    cases = res.cases
    res.cases = None
    inputs = [{"i": i, "files": {"m": "\n".join(_seq(c["toks"])) + "\n"}, "main": "m", "passes": [], "extract": True} for i, c in enumerate(cases)]
    n = 0
    for recs, rc, err, part in parallel_th(th, ["macro"], inputs, timeout=2400):
        got = {r["i"]: r for r in recs if "xtoks" in r}
        if rc != 0:
            begun = [r["begin"] for r in recs if "begin" in r]
            bad = inputs[begun[-1]] if begun else None
            chk.violation("x01:abort:%s" % (bad and bad["files"]["m"]), "extract_macros aborted (exit %s) on %r: %s" % (rc, bad and bad["files"]["m"], err[-1500:]), {"input": bad})
        for j in part:
            r = got.get(j["i"])
            if r is None:
                continue
            c = cases[j["i"]]
            n += 1
            ntok = len(_seq(c["toks"]))
            exp_out = _seq(c["out"])
            act_out = texts(r["xtoks"])
            # the EOF token stands on the last token's line; an error "at" position ntok + 1 (the EOF token) is that line too
            exp_errs = [(ERR[e["t"]], min(e["at"], max(ntok, 1))) for e in _seq(c["errs"])]
            act_errs = [(e[0], e[2]) for e in r["xerrs"]]
            exp_defs = [(m["prio"], _seq(m["rule"]), _seq(m["repl"])) for m in _seq(c["macros"])]
            act_defs = [(str(d["prio"]) if d["prio"] else 0, texts(d["rule"]), texts(d["repl"])) for d in r["defs"]]
            exp_defs = [(0 if p == 0 else str(p), a, b) for p, a, b in exp_defs]
            if exp_out != act_out or exp_errs != act_errs or exp_defs != act_defs:
                chk.violation("x01:%s" % " ".join(_seq(c["toks"])),
                              "extract_macros disagrees with TheoExtract on  %s : tokens %s / %s; errors %s / %s; definitions %s / %s (specification / code)"
                              % (" ".join(_seq(c["toks"])), exp_out, act_out, exp_errs, act_errs, exp_defs, act_defs), {"input": j})
    return n, cases
