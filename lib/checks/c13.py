"""C13 - generated LR(1) parsers recognise exactly their grammar."""
import json

from common import build, log, tlc, require_ok, parallel_th, tlc_counterexample
LEVEL = "model_checking"


def _seq(x):
    if isinstance(x, dict):
        return [x[k] for k in sorted(x, key=int)] if x else []
    return list(x or [])


def chain_grammars(seed, n):
    """grammars over S, A, B, C rich in unit and epsilon rules (nullability and FIRST travelling through chains)"""
    import random
    r = random.Random(seed)
    nts = ["S", "A", "B", "C"]
    out = []
    seen = set()
    # systematic part: one rule for S (X t, X, X Y) and for each of A, B, C one of: nothing, epsilon, a unit rule, a terminal
    import itertools
    opts = [None, [], ["A"], ["B"], ["C"], ["a"]]
    srules = [[x, t] for x in "ABC" for t in "ab"] + [[x] for x in "ABC"] + [[x, y] for x in "ABC" for y in "ABC"]
    for sr in srules:
        for oa, ob, oc in itertools.product(opts, repeat=3):
            rules = [{"l": "S", "r": sr}] + [{"l": l, "r": o} for l, o in (("A", oa), ("B", ob), ("C", oc)) if o is not None]
            key = json.dumps(sorted(rules, key=json.dumps), sort_keys=True)
            if key not in seen:
                seen.add(key)
                out.append(json.loads(key))
    # two alternatives of one non-terminal that end in the same state (S -> t A | A ; A -> u | v): reduce/reduce within one non-terminal
    strs = [list(t) for k in (1, 2) for t in itertools.product("ab", repeat=k)]
    for t in "ab":
        for u, v in itertools.combinations(strs, 2):
            rules = [{"l": "S", "r": [t, "A"]}, {"l": "S", "r": ["A"]}, {"l": "A", "r": u}, {"l": "A", "r": v}]
            key = json.dumps(sorted(rules, key=json.dumps), sort_keys=True)
            if key not in seen:
                seen.add(key)
                out.append(json.loads(key))
    n += len(out)
    while len(out) < n:
        rules = []
        for _ in range(r.randint(3, 5)):
            l = r.choice(nts)
            q = r.random()
            if q < 0.2:
                rhs = []
            elif q < 0.5:
                rhs = [r.choice(nts)]
            elif q < 0.8:
                rhs = [r.choice(nts), r.choice(["a", "b"] + nts)]
            elif q < 0.9:
                rhs = [r.choice(["a", "b"])]
            else:
                rhs = [r.choice(["a", "b"]), r.choice(nts)]
            rules.append({"l": l, "r": rhs})
        if not any(x["l"] == "S" for x in rules):
            rules[0]["l"] = "S"
        key = json.dumps(sorted(rules, key=json.dumps), sort_keys=True)
        if key in seen:
            continue
        seen.add(key)
        out.append(json.loads(key))
    return out


def _allw(n):
    out = [[]]
    for k in range(1, n + 1):
        out += [list(t) for t in __import__("itertools").product("ab", repeat=k)]
    return out


ALLW = {2: _allw(2), 3: _allw(3), 4: _allw(4)}


def run(chk):
    tha = build("asan")
    rules, rhs, maxin = (4, 2, 4) if chk.thorough else (3, 2, 4)
    res = tlc("TheoLR1", "SPECIFICATION Spec\nINVARIANT Thm\nCHECK_DEADLOCK FALSE\n", chk.pid, "thm",
              env={"LRRULES": rules, "LRRHS": rhs, "LRIN": maxin, "LRNT": "2", "LRCASES": "/dev/null"}, timeout=3000, xmx="20g")
    if not require_ok(res, "TheoLR1"):
        chk.violation("c13:theorem", "TheoLR1: the LR(1) theorem (driver <=> derivability, ambiguity => conflict, FIRST) fails inside the model\n%s"
                      % tlc_counterexample(res, 3000), {"trace": tlc_counterexample(res, 10000)})
    chk.tlc_stats(res)
    cases = res.cases
    res.cases = None
    # a second family, given to the same theorem: chains over four non-terminals
    import os
    from common import rundir
    d = rundir(chk.pid, "given_in")
    given = chain_grammars(chk.seed, 12000 if chk.thorough else 1500)
    gp = os.path.join(d, "grammars.json")
    with open(gp, "w") as f:
        json.dump(given, f)
    res2 = tlc("TheoLR1", "SPECIFICATION GSpec\nINVARIANT Thm\nCHECK_DEADLOCK FALSE\n", chk.pid, "thm4",
               env={"LRRULES": 1, "LRRHS": 1, "LRIN": 3, "LRNT": "4", "LRCASES": gp}, timeout=3000, xmx="20g")
    if not require_ok(res2, "TheoLR1 chains"):
        chk.violation("c13:theorem4", "TheoLR1: the LR(1) theorem fails inside the model on a chain grammar\n%s" % tlc_counterexample(res2, 3000), {})
    chk.tlc_stats(res2)
    cases += res2.cases
    res2.cases = None
    inputs = []
    for i, c in enumerate(cases):
        ws = ALLW[3 if len(c["first"]) == 4 else 4]
        # the property's domain: inputs over the terminals up to the largest terminal index the grammar uses (a = 1, b = 2)
        # inputs are arbitrary token sequences: terminals the grammar does not mention ("b" for a grammar over "a", the foreign
        # terminal "c", a terminal with a negative index "n") belong to no sentence - in prefix mode whatever follows an accepted
        # prefix is irrelevant, so these matter exactly there (a macro detector sees the whole rest of the program)
        ws = list(ws)
        for w in ALLW[2]:
            for tail in (["c"], ["c", "a"], ["n"]):
                ws.append(list(w) + tail)
        c["_ws"] = ws
        # every third grammar is built incrementally (queries between the additions), S's rules first in half of those
        rl = [{"l": r["l"], "r": _seq(r["r"])} for r in c["rules"]]
        if i % 6 == 0:
            rl.sort(key=lambda r: (r["l"] != "S", r["l"], r["r"]))
        inputs.append({"i": i, "rules": rl, "inputs": ws, "incremental": i % 3 == 0, "eps": i % 4 == 1, "regen": i % 5 == 2})
    got = {}
    for recs, rc, err, part in parallel_th(tha, ["lr"], inputs, timeout=2400):
        for r in recs:
            if "full" in r:
                got[r["i"]] = r
        if rc != 0:
            begun = [r["begin"] for r in recs if "begin" in r]
            bad = inputs[begun[-1]] if begun else None
            kind = "timeout" if rc in (-9, 75) else "crash/sanitizer"
            chk.violation("c13:abort:%s" % json.dumps(bad and bad["rules"]), "LRParser (ASan/UBSan build) did not return (%s, exit %s) for grammar %s: %s"
                          % (kind, rc, bad and bad["rules"], err[-1500:]), {"grammar": bad and bad["rules"], "stderr": err[-3000:]})
    nruns = 0
    ncf = 0
    over, silent = [0], [0]
    for i, c in enumerate(cases):
        r = got.get(i)
        if r is None:
            continue
        g = inputs[i]["rules"]
        problems = []
        lang = {tuple(_seq(w)) for w in (c["lang"] or [])}
        for mode, cf, runs in (("full", c["cfFull"], c["runsFull"]), ("pre", c["cfPre"], c["runsPre"])):
            if r[mode]["conflict"]:
                # the property constrains only tables generated without a conflict (and ambiguous grammars, below);
                # a conflict reported where canonical LR(1) has none is counted, not a violation of C13
                if cf:
                    over[0] += 1
                continue
            # no conflict reported: the parser must recognise exactly the language (declarative Lang, independent of the driver)
            ncf += 1
            exp = {tuple(_seq(x["w"])): (x["acc"], x["val"]) for x in (runs or [])}
            for w, (acc, term) in zip(c["_ws"], r[mode]["runs"]):
                nruns += 1
                tw = tuple(w)
                inl = (tw in lang) if mode == "full" else any(tw[:k] in lang for k in range(len(tw) + 1))
                if acc != inl:
                    problems.append("%s mode, input %s$: %s the language%s, parser %s" % (mode, "".join(w), "in" if inl else "not in",
                                    "" if mode == "full" else " (some prefix)", "accepts" if acc else "rejects"))
                    break
                if cf and acc and tw in exp and term != exp[tw][1]:
                    problems.append("%s mode, input %s$: value must be the fold of the unique tree %s, parser returned %s" % (mode, "".join(w), exp[tw][1], term))
                    break
            if not cf:
                silent[0] += 1          # canonical LR(1) has a conflict, none reported: behaviour was still compared with Lang above
        for mode in ("full", "pre"):
            if "conflict2" in r[mode] and r[mode]["conflict2"] != r[mode]["conflict"]:
                problems.append("%s mode: generating the tables a second time reports %s, the first time %s"
                                % (mode, "a conflict" if r[mode]["conflict2"] else "no conflict", "a conflict" if r[mode]["conflict"] else "none"))
        exp_first = {n: sorted(_seq(c["first"][n])) for n in c["first"]}
        act_first = {n: sorted(r["first"][n]) for n in c["first"]}
        if exp_first != act_first:
            problems.append("FIRST sets: specification %s, Grammar::first_sets %s" % (exp_first, act_first))
        # the same rules written into a plain Grammar with explicit epsilon symbols (FIRST of a non-terminal without rules is empty there too)
        plain_first = {n: sorted(r["first_plain"][n]) for n in c["first"]}
        if exp_first != plain_first:
            problems.append("FIRST sets of the grammar written with explicit epsilon symbols: specification %s, Grammar::first_sets %s" % (exp_first, plain_first))
        if r["first_of_eps"] != ["eps"] or ("a" in {x for rr in c["rules"] for x in _seq(rr["r"])} and sorted(r["first_of_eps_a"]) != ["a"]):
            problems.append("first(<eps>) = %s (textbook: {eps}), first(<eps a>) = %s (textbook: {a})" % (r["first_of_eps"], r["first_of_eps_a"]))
        for mode in ("full", "pre"):
            if c["amb"] and not r[mode]["conflict"]:
                problems.append("ambiguous grammar (two derivation trees for one string) but no conflict reported in %s mode" % mode)
        if problems:
            chk.violation("c13:%s" % json.dumps(g, sort_keys=True), "grammar %s: %s" % (g, "; ".join(problems)), {"grammar": g, "problems": problems})
    chk.cov["traces_validated_against_impl"] = nruns
    chk.cov["grammars"] = len(cases)
    chk.cov["conflict_free_tables_driven"] = ncf
    chk.cov["tables_with_conflict_reported_but_none_in_canonical_lr1"] = over[0]
    chk.cov["tables_without_reported_conflict_where_canonical_lr1_has_one"] = silent[0]
    chk.cov["ambiguous_grammars"] = sum(1 for c in cases if c["amb"])
    chk.cov["exhaustive"] = True
    chk.cov["rule"] = ("all grammars over non-terminals S, A and terminals a, b with <= %d rules and right-hand sides of <= %d symbols (epsilon rules, "
                       "left/right recursion, useless symbols); per grammar all inputs of <= %d terminals, full and prefix mode; in the model: "
                       "conflict-free => (driver accepts <=> derivable / some prefix derivable), unique tree, ambiguous => conflict, FIRST; S->I: "
                       "the real LRParser template (ASan/UBSan build): conflict verdicts, accept/reject and returned derivation term for every "
                       "input, Grammar::first_sets; a quarter of the grammars written with explicit epsilons in every right-hand side, a fifth generated twice" % (rules, rhs, maxin))
    k = len(cases) // 3
    chk.sample({"grammar": inputs[k]["rules"], "conflict_free_full": cases[k]["cfFull"], "first": cases[k]["first"],
                "runs": [(x["w"], x["acc"], x["val"]) for x in (cases[k]["runsFull"] or [])][:6]})
    log("C13: %d grammars, %d parse runs compared" % (len(cases), nruns))
