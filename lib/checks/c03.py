"""C03 - emitted bytecode is well-formed, so the VM never leaves its own memory."""
import json
import os

import sem
import unusual
import vm
from common import build, log, rundir, tlc, require_ok, tlc_counterexample, run_th
LEVEL = "model_checking"


def compile_all(th, items):
    """items: [(name, src, arity)] -> [(name, src, prog)] for the accepted ones."""
    recs, rc, err = run_th(th, ["compile", "--prog"], [dict(s, i=i) for i, (_, s, _) in enumerate(items)], timeout=600)
    res = {r["i"]: r for r in recs if "ok" in r}
    out = []
    for i, (n, s, ar) in enumerate(items):
        r = res.get(i)
        if r is not None and r["ok"]:
            pr = r["prog"]
            pr["arity"] = ar if ar is not None else []
            pr["toklines"] = []
            out.append((n, s, pr))
    return out, rc, err


def run(chk):
    th = build("plain")
    tha = build("asan")
    n = 6000 if chk.thorough else 220
    gen_progs = sem.generate(chk.seed + 3, n, canon=False, profile="calls") + sem.generate(chk.seed + 4, n // 2, canon=True)
    items = [(u[0], u[1], u[2]) for u in unusual.sources()]
    items += [("gen%d" % p["seed"], {"files": p["files"], "main": p["main"]}, [len(rt["params"]) for rt in p["ast"]["routines"]])
              for p in gen_progs]
    acc, rc, err = compile_all(th, items)
    if rc != 0:
        chk.violation("c03:compile-abort", "compiler aborted on a corpus source: %s" % err[-2000:], {"stderr": err[-4000:]})
    chk.cov["programs_compiled"] = len(acc)
    chk.cov["unusual_declarations_accepted"] = [n for n, _, _ in acc if not n.startswith("gen")]
    # 1. TLC: static predicate + all control paths of every accepted program
    d = rundir(chk.pid, "abs_in")
    pp = vm.write_progs(d, [pr for _, _, pr in acc])
    for spec, invs, nm in (("SSpec", "StaticInv", "static"), ("ASpec", "AbsSafe AbsDepth", "abs")):
        cfg = "SPECIFICATION %s\nINVARIANT %s\nVIEW AView\nCHECK_DEADLOCK FALSE\n" % (spec, invs)
        res = tlc("TheoVMAbs", cfg, chk.pid, nm, env={"PROGS": pp, "HISTK": "0"}, timeout=1500, xmx="12g")
        if not require_ok(res, "TheoVMAbs " + nm):
            which = _which_program(res, acc)
            chk.violation("c03:%s:%s:%s" % (nm, res.violated, which and which[0]),
                          "TheoVMAbs: %s violated on the real bytecode of %s\n%s" % (res.violated, which and which[0], tlc_counterexample(res, 2500)),
                          {"violated": res.violated, "program": which and which[1], "trace": tlc_counterexample(res, 12000)})
        chk.tlc_stats(res)
    # 2. dynamic cross-check on the sanitizer build: every executed instruction is an event validated against the guarded
    #    TheoVM actions (an access outside the addressed frame is a stuck state even where ASan is blind)
    m = 120 if chk.thorough else 36
    step = max(1, len(acc) // m)
    sub = [a for a in acc if not a[0].startswith("gen")] + acc[len(unusual.sources())::step][:m]
    sources = [(nm, s) for nm, s, _ in sub]
    progs = [pr for _, _, pr in sub]
    execs = vm.record_traces(chk, tha, sources, 1500 if chk.thorough else 500, 1, chk.seed, style="single")
    accn = vm.validate_traces(chk, execs, progs, "sg", ["TypeOK", "NoStuck", "FramesExact", "DepthBound"])
    chk.cov["traces_validated_against_impl"] = accn
    chk.cov["trace_events"] = sum(len(e) for e in execs)
    chk.cov["rule"] = ("TheoVMAbs on the real compiler's output for hand-designed unusual declarations and generated sources: StaticOK over "
                       "the instruction array (shape, jump targets inside the routine, register operands below the declared frame size, "
                       "PREP/ARG/EXEC agreement, stack maps inside frames) and AbsSafe/AbsDepth on the complete graph of control paths "
                       "(JMPC both ways); instruction-by-instruction runs on the ASan/UBSan build validated against TheoVM's guarded actions")
    chk.sample({"program": acc[0][1] if acc else None, "abstract_states": res.distinct})
    chk.assumptions += ["code shape PREP;(JMP;body;RET)*;root;HALT as forced by the grammar (checked by StaticOK)",
                        "parameter counts of generated programs come from the generator's AST"]
    log("C03: %d programs, abstract graph %d states, %d/%d instruction traces accepted" % (len(acc), res.distinct, accn, len(execs)))


def _which_program(res, acc):
    import re
    m = re.search(r"/\\ p = (\d+)", res.out)
    if m:
        i = int(m.group(1)) - 1
        if 0 <= i < len(acc):
            return acc[i][0], acc[i][1]
    return None
