"""C01 - compiled programs compute the LOOP/WHILE/GOTO reference semantics."""
import sem
from common import build, log
LEVEL = "translation_validation"


def run(chk):
    th = build("plain")
    nfree, ncanon = (80000, 20000) if chk.thorough else (2400, 600)
    progs = sem.generate(chk.seed, nfree, canon=False) + sem.generate(chk.seed + 7, ncanon, canon=True, diverge=0.1)
    for p in progs[nfree:]:
        p["canon"] = False            # here only the end of the run is compared (every stop is C07's business)
    sem.run_real(chk, th, progs)
    bad = [p for p in progs if "run" in p and not p["run"]["ok"]]
    for p in bad[:5]:
        chk.violation("c01:reject:seed%d" % p["seed"], "a generated well-formed source was rejected by the compiler: %s\n%s"
                      % (p["run"].get("errors"), p["files"]), {"files": p["files"], "main": p["main"], "errors": p["run"].get("errors")})
    ncli = sem.run_cli(chk, progs[::max(1, len(progs) // (400 if chk.thorough else 60))], limit=400 if chk.thorough else 60)
    chk.cov["programs_run_through_bin_theo"] = ncli
    acc, nev = sem.validate(chk, progs)
    # model leg: the ideal machine (no real VM) on the real bytecode of the same sources simulates TheoSem
    nref = sem.refine(chk, th, progs[::max(3, len(progs) // 6000)])
    chk.cov["programs_in_model_leg_TheoRefine"] = nref
    ok = [p for p in progs if "run" in p and p["run"]["ok"]]
    timeouts = sum(1 for p in ok if not p["run"]["finished"])
    nviews = sum(len(v) for p in ok for s in p["run"]["stops"] if s["done"] for v in s["views"])
    chk.cov.update({"programs": len(progs), "disagreements_checked": nviews, "executions_accepted": acc,
                    "divergent_programs": timeouts, "programs_with_user_macros": sum(1 for p in ok if "lib" in p["files"] or "DEFINE" in p["files"]["m"]),
                    "vm_instructions_executed": sum(p["run"]["steps"] for p in ok),
                    "rule": "seeded sources in free layout (macros from the fixed library, includes at token boundaries, comments, keyword "
                            "spellings) and in canonical layout; the real compiler's bytecode runs on the real VM; TLC runs TheoSem on the "
                            "generator's core AST and must end exactly when the VM does, with equal values of all user variables of all live "
                            "activations; divergent programs: neither side may finish within the proportional budgets"})
    if ok:
        p0 = ok[len(ok) // 3]
        chk.sample({"files": p0["files"], "final_views": [s["views"] for s in p0["run"]["stops"] if s["done"]], "vm_steps": p0["run"]["steps"]})
    chk.assumptions += ["reference semantics = TheoSem.tla evaluated by TLC on the generator's core AST (macro uses replaced by their documented meaning in lib/gen.py)",
                        "values stay below 2^31-1 and fewer than 1024 macro rewrites (generator keeps programs small; overflowing runs are skipped by the specification)"]
    log("C01: %d programs (%d divergent), %d accepted" % (len(progs), timeouts, acc))
