"""C20 - machine arithmetic is always defined and values stay natural numbers."""
import vm
from common import build, log, tlc, require_ok, run_th, Broken
LEVEL = "model_checking"

from vm import boundary_programs, M, H  # shared with the VM family (trace validation only)


def run(chk):
    th = build("plain")
    tha = build("asan")
    # 1. run time: boundary programs, instruction by instruction on the UBSan/ASan build; every stored word is bound
    sources = boundary_programs() + vm.random_boundary_programs(chk.seed, 300 if chk.thorough else 24)
    progs = vm.compile_progs(th, sources)
    execs = vm.record_traces(chk, tha, sources, 400, 1, chk.seed, style="single")
    acc = vm.validate_traces(chk, execs, progs, "sgv", ["TypeOK", "NoStuck", "WordsInRange", "FramesExact"])
    chk.cov["traces_validated_against_impl"] = acc
    chk.cov["boundary_programs"] = len(sources)
    chk.cov["trace_events"] = sum(len(e) for e in execs)
    ovf = sum(1 for e in execs for ev in e if ev.get("addres", 0) == 2147483647)
    chk.cov["additions_reaching_max_word"] = ovf
    # the debugger graph of the VM corpus with WordsInRange (values far from the boundary: sanity of the invariant)
    corpus = vm.load_corpus(["v1_loop", "v2_call", "v4_goto"])
    cprogs = vm.compile_progs(th, corpus)
    vm.graph_check(chk, corpus, cprogs, ["TypeOK", "WordsInRange"], [])
    # 2. compile time: literals of any length in every position, priorities, insertion indices (cases from TheoWord)
    res = tlc("TheoWord", "SPECIFICATION Spec\nCONSTRAINT Emit\nCHECK_DEADLOCK FALSE\n", chk.pid, "word", workers=1, timeout=300)
    require_ok(res, "TheoWord")
    chk.tlc_stats(res)
    cases = list({c["src"]: c for c in res.cases}.values())
    recs, rc, err = run_th(tha, ["compile"], [{"i": i, "files": {"m": c["src"]}, "main": "m"} for i, c in enumerate(cases)], timeout=600)
    got = {r["i"]: r for r in recs if "ok" in r}
    if rc != 0:
        begun = [r["begin"] for r in recs if "begin" in r]
        bad = cases[begun[-1]] if begun else None
        chk.violation("c20:literal-abort:%s" % (bad and bad["src"]), "compiler aborted (sanitizer/crash, exit %s) on %s: %s" % (rc, bad, err[-1500:]),
                      {"case": bad, "stderr": err[-4000:]})
    for i, c in enumerate(cases):
        r = got.get(i)
        if r is None:
            continue
        has_range = any(e.get("range") for e in r["errors"])
        if r["ok"] != c["accept"] or (c["range"] and not has_range):
            chk.violation("c20:literal:%s:%s" % (c["pos"], c["lit"]),
                          "literal %s in position %s: specification expects %s%s, compiler returned ok=%s errors=%s; source: %s"
                          % (c["lit"], c["pos"], "accept" if c["accept"] else "reject", " with a range error" if c["range"] else "",
                             r["ok"], [(e["file"], e["line"], e["range"]) for e in r["errors"]], c["src"]), {"case": c, "result": r})
    chk.cov["literal_cases"] = len(cases)
    chk.cov["rule"] = ("boundary programs (largest literal, x+c with c up to 2^31-2, sums through calls and loops, counters at 0) run "
                       "instruction by instruction on the UBSan build and validated by TheoVMTrace with every frame word bound: in-range "
                       "additions exact, overflowing additions any in-range value but deterministic; WordsInRange in every state; "
                       "literal/priority/insertion-index range rule: TheoWord cases (16 literals x 11 positions) replayed into the compiler")
    if execs:
        chk.sample({"boundary_program": sources[0][1]["files"]["m"], "events": [dict(e=ev["e"], ip=ev.get("ip"), addres=ev.get("addres")) for ev in execs[0][1:8]]})
    chk.sample({"literal_case": cases[len(cases) // 2]})
    log("C20: %d/%d boundary traces accepted, %d literal cases" % (acc, len(execs), len(cases)))
