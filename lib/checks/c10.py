"""C10 - macro temporaries are hygienic."""
import macro
import sem
from common import build, log
LEVEL = "model_checking"


def run(chk):
    th = build("plain")
    total = 0
    for fam, L in (("temps", 6 if chk.thorough else 5), ("tempsgap", 6 if chk.thorough else 4), ("tnest", 6 if chk.thorough else 5), ("temps2", 6 if chk.thorough else 5)):
        macros = macro.family_macros(chk, fam)
        cases = macro.enumerate_paths(chk, fam, L, 5 if fam == "tnest" else 4, invariants=("UniquePerLoc", "BestAgree", "PassBound", "GrowthBound"))
        # in-model: TempsFresh as an action property on the same enumeration is implied by the name scheme (n, macro, pass); the
        # binding to the code is the bijection requirement of the replay, in four source layouts
        for layout in ("lines", "files", "oneline", "longname", "bodyinc"):
            total += macro.replay(chk, th, fam, macros, cases, "c10:" + layout, layout=layout)
        chk.add("rewriting_paths", len(cases))
    # a long path (one expansion per pass, 300 passes): temporaries of passes that lie more than 256 apart are distinct too
    from common import run_th
    import lexinc
    n = 300
    src = "DEFINE x <ID> AS #0 := $0 END DEFINE\n" + " ;\n".join(["x a"] * n) + "\n"
    recs, rc, err = run_th(th, ["macro"], [{"i": 0, "files": {"m": src}, "main": "m", "passes": [1024]}], timeout=600)
    r = next((x for x in recs if "runs" in x), None)
    if r is None:
        chk.violation("c10:long:abort", "apply_macros did not return on %d sequential uses of a macro with a temporary (exit %s)" % (n, rc), {"source": src})
    else:
        toks = macro.norm_real(r["runs"][0]["toks"])
        temps = [t for k, t in toks if k == lexinc.KIND["ID"] and t != "a"]
        if len(temps) != n or len(set(temps)) != n or r["runs"][0]["errs"]:
            chk.violation("c10:long", "%d sequential uses of 'x <ID> AS #0 := $0' (one expansion step each): %d temporaries, %d distinct, errors %s - "
                          "every expansion step must own its temporary" % (n, len(temps), len(set(temps)), r["runs"][0]["errs"]),
                          {"source": src, "temporaries": temps[:6] + temps[-3:]})
        total += 1
    # end to end: nested / repeated uses of the IF-THEN-ELSE and REPEAT macros must not interfere (values compared with TheoSem)
    progs = sem.generate(chk.seed + 100, 2500 if chk.thorough else 400, canon=False, profile="macroheavy")
    sem.run_real(chk, th, progs)
    acc, nev = sem.validate(chk, progs)
    chk.cov["traces_validated_against_impl"] = total
    chk.cov["end_to_end_programs_accepted"] = acc
    chk.cov["exhaustive"] = True
    chk.cov["rule"] = ("TheoMacro names a temporary by (n, macro, pass); every rewriting path of the families 'temps' (a macro with #0/#1 used "
                       "inside its own <P> slot and twice in a sequence) and 'temps2' (two macros of equal priority with the same temporary "
                       "numbers) over all streams of <= 5 (thorough 6) tokens is replayed with budgets 1..4 in five layouts (one definition per "
                       "line, one file per macro with equal line numbers, all definitions on one line, a 77-character file name, the second half of every body in an included file); the map real "
                       "spelling -> specification name must be a bijection on every path and no spelling may be a legal identifier; 300 sequential uses (passes more than 256 apart) own 300 distinct temporaries; "
                       "macro-heavy generated programs (nested IF-THEN-ELSE / REPEAT) end to end through TheoSem")
    log("C10: %d stream/budget cases compared, %d end-to-end programs accepted" % (total, acc))
