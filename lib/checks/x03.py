"""X03 (extension beyond the listed properties): where the first error is reported. TheoParse!ErrAt against Theo::compile."""
import random

import parse
from common import build, log, parallel_th
LEVEL = "model_checking"


def layout(toks, r, prelude=""):
    """source text with random line breaks, possibly spread over included files; returns (files, [(file, line)] per token)"""
    texts = [parse.render([t], r).strip() for t in toks]

    def lay(ts, first_line):
        out, pos, line = [], [], first_line
        for t in ts:
            nl = r.choice([0, 0, 1, 1, 2])
            out.append("\n" * nl if out or nl else "")
            line += nl if out[-1] else 0
            out.append(t + " ")
            pos.append(line)
        return "".join(out), pos
    n = len(toks)
    if n >= 2 and r.random() < 0.5:
        k = r.randrange(1, n)
        t1, p1 = lay(texts[:k], 1)
        t2, p2 = lay(texts[k:], 1 + prelude.count("\n"))
        files = {"m": prelude + 'include "p1" ' + t2 + "\n", "p1": t1 + "\n"}
        return files, [("p1", l) for l in p1] + [("m", l) for l in p2]
    t, p = lay(texts, 1 + prelude.count("\n"))
    return {"m": prelude + t + "\n"}, [("m", l) for l in p]


def run(chk):
    th = build("plain")
    r = random.Random(chk.seed)
    n_tok, n_pre = (8, 8) if chk.thorough else (7, 7)
    total = 0
    for cases, pre in ((parse.enumerate_cases(chk, n_tok, "tokens"), ""),
                       (parse.enumerate_cases(chk, n_pre, "tokens", name="enum_pre", pre=True), parse.PRELUDE)):
        usable = [c for c in cases if not c["dup"] and c["errat"] > 0]
        inputs, where = [], []
        for i, c in enumerate(usable):
            files, pos = layout(parse._seq(c["toks"]), r, pre)
            inputs.append({"i": i, "files": files, "main": "m"})
            where.append(pos[c["errat"] - 1])
        for recs, rc, err, part in parallel_th(th, ["compile"], inputs, timeout=1800):
            got = {x["i"]: x for x in recs if "ok" in x}
            if rc != 0:
                chk.violation("x03:abort", "Theo::compile aborted: %s" % err[-800:], {})
            for j in part:
                x = got.get(j["i"])
                if x is None:
                    continue
                total += 1
                c = usable[j["i"]]
                first = x["errors"][0] if x["errors"] else None
                if first is None or (first["file"], first["line"]) != where[j["i"]]:
                    chk.violation("x03:%s" % " ".join(parse._seq(c["toks"])),
                                  "tokens %s: TheoParse locates the first error at token %d = %s, the compiler reports %s (source %r)"
                                  % (parse._seq(c["toks"]), c["errat"], where[j["i"]], first and (first["file"], first["line"]), j["files"]),
                                  {"input": j, "expected": where[j["i"]], "result": x})
    chk.cov["traces_validated_against_impl"] = total
    chk.cov["exhaustive"] = True
    chk.cov["rule"] = ("every refused one-token extension and every viable prefix cut off by the end of file within %d tokens (also after a fixed "
                       "definition), in random layouts over one or two files: the first reported error stands at the file and line of the token "
                       "TheoParse!ErrAt names" % n_tok)
    log("X03: %d error locations compared" % total)
