"""X02 (extension beyond the listed properties): the command line debugger `theo -d` as a client of TheoVM (TheoCliTrace.tla)."""
import cli
import vm
from common import build, log
LEVEL = "model_checking"


def run(chk):
    build("plain")
    th = build("asan")
    sources = vm.load_corpus()
    progs = vm.compile_progs(th, sources)
    per, n = (12, 60) if chk.thorough else (3, 30)
    acc = cli.sessions(chk, sources, progs, per, n, chk.seed)
    chk.cov["traces_validated_against_impl"] = acc
    chk.cov["rule"] = "%d sessions of %d debugger commands per corpus program recorded from theo -d and validated by TheoCliTrace" % (per, n)
    log("X02: %d sessions accepted" % acc)
