"""C09 - macro expansion is faithful substitution: highest priority, leftmost, longest."""
import macro
import sem
from common import build, log
LEVEL = "model_checking"

FAMILIES = ["prefix1", "prefix2", "prio", "overlap", "literal", "dup", "layered", "args", "pslot", "manyslots"]


def run(chk):
    th = build("plain")
    total = 0
    for fam in FAMILIES:
        big = fam in ("prefix1", "prefix2", "overlap")
        L = 6 if chk.thorough else (5 if big else 4)
        if fam == "manyslots":          # two symbols only: long enough for the eleven-slot pattern (and a second use behind it)
            L = 14 if chk.thorough else 13
        inv = ("UniquePerLoc", "BestAgree", "PassBound") + (() if fam == "dup" else ("GrowthBound",))
        macros = macro.family_macros(chk, fam)
        cases = macro.enumerate_paths(chk, fam, L, 2 if fam == "manyslots" else 4 if chk.thorough else 3, invariants=inv)
        total += macro.replay(chk, th, fam, macros, cases, "c09")
        if fam in ("literal", "pslot", "args"):      # keyword literals match by kind: the program spells them differently from the pattern
            total += macro.replay(chk, th, fam, macros, cases, "c09:altcase", layout="altcase")
        chk.add("rewriting_paths", len(cases))
    # slots are the language's own values / statement sequences (C09's wording): a call without arguments is a value, a statement with
    # two labels is a statement - whatever the language accepts there a slot must match (controls: one argument, one label)
    from common import run_th
    slot = [("c09:slot:zeroargs", "PROGRAM five DO x0 := 5 END\nDEFINE DBL <V> AS $0 END DEFINE\nx := DBL RUN five WITH END\n"),
            ("c09:slot:onearg", "PROGRAM five IN a DO x0 := 5 END\nDEFINE DBL <V> AS $0 END DEFINE\nx := DBL RUN five WITH 1 END\n"),
            ("c09:slot:twolabels", "DEFINE WRAP <P> ENDWRAP AS $0 END DEFINE\nWRAP b: c: z := z + 1 ENDWRAP\n"),
            ("c09:slot:onelabel", "DEFINE WRAP <P> ENDWRAP AS $0 END DEFINE\nWRAP b: z := z + 1 ENDWRAP\n")]
    recs, rc, err = run_th(th, ["compile"], [{"i": i, "files": {"m": src}, "main": "m"} for i, (_, src) in enumerate(slot)], timeout=300)
    got = {x["i"]: x for x in recs if "ok" in x}
    for i, (key, src) in enumerate(slot):
        x = got.get(i)
        if x is None or not x["ok"]:
            chk.violation(key, "a macro use whose slot is filled with a legal %s of the language is not expanded (the source is rejected): %r"
                          % ("value" if "DBL" in src else "statement sequence", src), {"source": src, "result": x})
    chk.add("slot_instances_from_the_language_grammar", len(slot))
    # end to end: sources using macros must behave like their documented meaning (C01's pipeline, macro-heavy profile)
    progs = sem.generate(chk.seed + 90, 1500 if chk.thorough else 250, canon=False, profile="macroheavy")
    sem.run_real(chk, th, progs)
    for p in [p for p in progs if "run" in p and not p["run"]["ok"]][:3]:
        chk.violation("c09:e2e-reject:seed%d" % p["seed"], "macro-using source rejected: %s" % p["run"].get("errors"), {"files": p["files"]})
    acc, nev = sem.validate(chk, progs)
    chk.cov["traces_validated_against_impl"] = total
    chk.cov["end_to_end_programs_accepted"] = acc
    chk.cov["exhaustive"] = True
    chk.cov["rule"] = ("TheoMacro (declarative match relation, Best = priority > leftmost > longest) on 10 macro families (eleven slots with two-digit insertion indices, prefix patterns in both "
                       "definition orders, distinct priorities, equal priorities with overlapping candidates, literal identifier/operator/keyword "
                       "constraints (keywords also spelled differently in the program than in the pattern), a slot used twice in a body, layered macros whose bodies introduce the other pattern's operator, ID/INT/VALUE/ARGS/P slots with nested calls and statement sequences): all streams of <= 5 (thorough 6) tokens "
                       "over the family's vocabulary, every rewriting path; the k-th stream of apply_macros(budget k) must equal the k-th "
                       "specification stream (kinds and texts, temporaries up to renaming); in-model UniquePerLoc, BestAgree; macro-heavy "
                       "generated programs end to end through TheoSem")
    log("C09: %d stream/budget cases compared, %d end-to-end programs accepted" % (total, acc))
