"""Shared driver of the properties decided on TheoVM (C05, C06, C17, C19 and parts of C03/C16/C20)."""
import vm
from common import build, log


def run_family(chk, invariants, properties, s2i_fields, trace_fields, trace_inv, trace_props=(),
               hist_k=(3, 4), trace_runs=(4, 40), trace_calls=(150, 400), style="mixed", variant="asan"):
    th = build(variant)
    sources = vm.load_corpus()
    progs = vm.compile_progs(th, sources)
    # 1. complete state graph of all debugger histories (model checking leg)
    res = vm.graph_check(chk, sources, progs, invariants, properties)
    log("%s: graph %d distinct states, %d transitions (%.0fs)" % (chk.pid, res.distinct, res.generated, res.wall))
    # 2. S->I: every history of <= k calls, expected observation after every call
    k = hist_k[1] if chk.thorough else hist_k[0]
    small = [i for i, pr in enumerate(progs) if len(pr["pbs"]) <= (5 if k >= 4 else 99)]
    sub_sources = [sources[i] for i in small]
    sub_progs = [progs[i] for i in small]
    cases = vm.hist_cases(chk, sub_progs, k)
    n = vm.replay_cases(chk, th, sub_sources, cases, s2i_fields, "s2i")
    chk.add("s2i_histories", len(cases))
    chk.add("s2i_calls_compared", n)
    log("%s: S->I %d histories of %d calls, %d observations compared" % (chk.pid, len(cases), k, n))
    # 3. I->S: long random histories validated by TheoVMTrace
    runs = trace_runs[1] if chk.thorough else trace_runs[0]
    calls = trace_calls[1] if chk.thorough else trace_calls[0]
    execs = vm.record_traces(chk, th, sources, calls, runs, chk.seed, style=style)
    acc = vm.validate_traces(chk, execs, progs, trace_fields, trace_inv, trace_props)
    chk.add("traces_validated_against_impl", acc)
    chk.add("trace_events", sum(len(e) for e in execs))
    if execs:
        chk.sample({"recorded_execution_prefix": execs[0][:4]})
    log("%s: I->S %d/%d executions accepted" % (chk.pid, acc, len(execs)))
    # 4. I->S only: programs whose additions overflow.  The trace specification does not fix the value an overflowing addition
    #    stores (any in-range value, but the same one for the same operands, whether reached by execute() or by single steps),
    #    so these programs are kept out of the graph and of the S->I histories, where a concrete value would have to be assumed
    osrc = vm.boundary_programs()
    oprogs = vm.compile_progs(th, osrc)
    oexecs = vm.record_traces(chk, th, osrc, 120, 2 if chk.thorough else 1, chk.seed + 5, style=style)
    oacc = vm.validate_traces(chk, oexecs, oprogs, trace_fields + ("s" if "s" not in trace_fields else ""), trace_inv, trace_props, name="tvo")
    chk.add("traces_validated_against_impl", oacc)
    chk.add("overflow_program_traces", len(oexecs))
    # 5. I->S with exhaustive coverage: the real VM is walked through its complete reachable state graph on the small programs
    #    (every call of the alphabet from every reachable state); the specification must explain every transition
    wexecs, wstats = vm.record_walks(chk, th, sources, 1000 if not chk.thorough else 20000)
    wprogs_idx = sorted({e[0]["p"] for e in wexecs})
    wacc = vm.validate_traces(chk, wexecs, progs, trace_fields, trace_inv, trace_props, name="walk", batches=max(1, len(wexecs)), timeout=2400)
    chk.add("traces_validated_against_impl", wacc)
    chk.cov["exhaustive_walks"] = [{"program": sources[w["walk"] - 1][0], "real_states": w["states"], "calls_per_state": w["alphabet"],
                                    "transitions_validated": w["steps"]} for w in wstats if w["complete"]]
    log("%s: exhaustive walks %d/%d accepted (%d transitions)" % (chk.pid, wacc, len(wexecs), sum(w["steps"] for w in wstats if w["complete"])))
    # 6. the command line debugger (theo -d) as a client: sessions of commands recorded from the real binary, validated by TheoCliTrace
    import cli
    cacc = cli.sessions(chk, sources, progs, 12 if chk.thorough else 3, 60 if chk.thorough else 30, chk.seed + 9, variant=variant)
    chk.add("traces_validated_against_impl", cacc)
    chk.add("cli_debugger_sessions", cacc)
    log("%s: theo -d sessions accepted: %d" % (chk.pid, cacc))
    chk.cov["rule"] = ("complete TLC state graph of TheoVM over all debugger histories of the compiled corpus programs; "
                       "all API histories of length %d replayed into the real VM; %d seeded random histories of %d calls "
                       "recorded from the real VM and validated by TheoVMTrace; exhaustive walks of the real VM's whole reachable state graph (every call "
                       "from every state) on the programs with <= %d states, every transition validated; sessions of the command line debugger (theo -d) validated by TheoCliTrace" % (k, len(execs), calls, 1000 if not chk.thorough else 20000))
    chk.cov["programs_in_graph"] = len(progs)
    chk.cov["exhaustive"] = True
    chk.assumptions += ["programs are the real compiler's output for /verif/corpus/vm/*.theo",
                        "TLC 1.8, CommunityModules Json/IOUtils, g++ 12"]
