"""C08 - breakpoint tables are consistent and name real source lines."""
import re

import sem
import vm
from common import build, log, rundir, tlc, require_ok, tlc_counterexample, run_th
LEVEL = "model_checking"


def toklines(files):
    """(file, line) pairs on which a token of the program text stands (include directives excluded)."""
    out = set()
    for f, text in files.items():
        for ln, line in enumerate(text.split("\n"), 1):
            line = re.sub(r"//.*", "", line)
            line = re.sub(r'(?i)\binclude\s*"[^"]*"', " ", line)
            if line.strip():
                out.add((f, ln))
    return sorted(out)


def patterns():
    """Hand-designed adversarial layouts: headers re-entering a line that owns a site, END from an included file, ..."""
    P = []

    def add(name, files):
        P.append((name, {"files": files, "main": "m"}))
    add("header_reenters_line", {"m": 'PROGRAM g IN a DO\nx0 := a include "e" PROGRAM f IN b DO\nx0 := b END\ny := RUN f WITH 1 END; z := RUN g WITH 2 END\n', "e": "END"})
    add("header_reenters_line2", {"m": 'PROGRAM g IN a DO x0 := a;\nx0 := x0 + 1 include "e" PROGRAM f IN b DO x0 := b\nEND y := RUN f WITH 1 END\n', "e": "\nEND\n"})
    add("two_headers_one_line", {"m": 'PROGRAM f IN a DO x0 := a END PROGRAM g IN b DO x0 := b END x := RUN f WITH 1 END;\ny := RUN g WITH x END\n'})
    add("header_after_code_same_line", {"m": 'include "p" include "q" include "p"\nx := RUN f WITH 1 END; y := RUN g WITH 2 END\n',
         "p": "PROGRAM f IN a DO x0 := a +\n1 END", "q": "PROGRAM g IN a DO x0 := RUN f WITH a END END"})
    add("macro_body_elsewhere", {"m": 'include "lib"\nPROGRAM f IN a OUT a DO BUMP a END PROGRAM g IN a OUT a DO BUMP a; BUMP a END\nx := RUN f WITH 1 END; BUMP x;\ny := RUN g WITH x END\n',
         "lib": "DEFINE BUMP <ID> AS\n $0 :=\n $0 + 1 END DEFINE\n"})
    add("loop_end_in_include", {"m": 'x := 2; LOOP x DO y := y + 1 include "e"; z := y\n', "e": "\n\nEND"})
    add("label_alone_on_line", {"m": "x := 2;\nagain:\ny := y + 1;\nx := x - 1;\nIF x = 0 THEN GOTO fin;\nGOTO again;\nfin:\nz :=\ny\n"})
    add("value_on_next_line", {"m": "x :=\n3;\ny :=\nx + 1;\nz := RUN\nf WITH\nx,\ny END\n".replace("z := RUN\nf WITH\nx,\ny END", "z := y")})
    add("program_end_other_file", {"m": 'PROGRAM f IN a DO\ninclude "b"\ninclude "e"\nx := RUN f WITH 3 END\n', "b": "x0 := a + 1;\nx0 := x0 + 1\n", "e": "END\n"})
    add("only_standards_sugar", {"m": "x := 1; y := x + 1; z := y - 1\n"})
    return P


def run(chk):
    th = build("plain")
    n = 2000 if chk.thorough else 500      # (10000 was tried: TLC needs more than its 25 minutes for the 160 MB of tables)
    gen_progs = sem.generate(chk.seed + 8, n, canon=False) + sem.generate(chk.seed + 9, n // 3, canon=True)
    items = patterns() + [("gen%d" % p["seed"], {"files": p["files"], "main": p["main"]}) for p in gen_progs]
    recs, rc, err = run_th(th, ["compile", "--prog"], [dict(s, i=i) for i, (_, s) in enumerate(items)], timeout=900)
    if rc != 0:
        chk.violation("c08:compile-abort", "compiler aborted on a layout source: %s" % err[-2000:], {"stderr": err[-4000:]})
    res = {r["i"]: r for r in recs if "ok" in r}
    acc = []
    for i, (nm, s) in enumerate(items):
        r = res.get(i)
        if r and r["ok"]:
            pr = r["prog"]
            pr["arity"] = []
            # quick tier: token lines from a line-level reading of the sources (independent of the scanner)
            pr["toklines"] = [list(t) for t in toklines(s["files"])]
            acc.append((nm, s, pr))
        elif r and not nm.startswith("gen"):
            chk.violation("c08:pattern-rejected:" + nm, "layout pattern %s was rejected by the compiler: %s" % (nm, r["errors"]), {"source": s})
    d = rundir(chk.pid, "tab_in")
    pp = vm.write_progs(d, [pr for _, _, pr in acc])
    cfg = "SPECIFICATION SSpec\nINVARIANT TablesInv LocsRealInv AvailInv\nVIEW AView\nCHECK_DEADLOCK FALSE\n"
    r = tlc("TheoVMAbs", cfg, chk.pid, "tables", env={"PROGS": pp, "HISTK": "0"}, timeout=1500, xmx="12g")
    if not require_ok(r, "tables"):
        m = re.search(r"/\\ p = (\d+)", r.out)
        which = acc[int(m.group(1)) - 1] if m else None
        tabs = which and {"pbs": which[2]["pbs"], "sites": which[2]["sites"]}
        chk.violation("c08:%s:%s" % (r.violated, which and which[0]),
                      "%s violated on the tables the real compiler emitted for %s: %s\nsource: %s"
                      % (r.violated, which and which[0], str(tabs)[:1500], which and str(which[1])[:1500]),
                      {"violated": r.violated, "source": which and which[1], "tables": tabs})
    chk.tlc_stats(r)
    # consequence: a location can be enabled iff stepping can report it - validate real debugger histories on a sample
    m = 150 if chk.thorough else 40
    sub = acc[:len(patterns())] + acc[len(patterns())::max(1, len(acc) // m)][:m]
    sources = [(nm, s) for nm, s, _ in sub]
    execs = vm.record_traces(chk, th, sources, 250, 1, chk.seed, style="mixed", may_diverge=[True] * len(sub))
    accn = vm.validate_traces(chk, execs, [pr for _, _, pr in sub], "erc", ["TypeOK", "StopExact", "BrkSync", "StartNone"])
    chk.cov["traces_validated_against_impl"] = accn
    chk.cov["programs_with_tables_checked"] = len(acc)
    chk.cov["locations_checked"] = sum(len(pr["pbs"]) for _, _, pr in acc)
    chk.cov["sites_checked"] = sum(len(pr["sites"]) for _, _, pr in acc)
    chk.cov["rule"] = ("TablesOK (inverse tables, listed sites are exactly the break instructions, no __standards__ location) and LocsRealInv "
                       "(every location is a line carrying program text) evaluated by TLC on the real tables of hand-designed adversarial "
                       "layouts and of generated free/dense/sparse layouts with includes at token boundaries and macro bodies in other files; "
                       "debugger histories on a sample validated with StopExact/BrkSync so that enable-ability and reportability coincide")
    if acc:
        chk.sample({"source": acc[0][1], "pbs": acc[0][2]["pbs"]})
    log("C08: %d programs' tables checked, %d traces accepted" % (len(acc), accn))
