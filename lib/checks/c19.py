"""C19 - VM memory is proportional to the live activations."""
from vmfamily import run_family
LEVEL = "model_checking"


def run(chk):
    run_family(chk, invariants=["TypeOK", "FramesExact"], properties=[],
               s2i_fields=["ip", "data", "stack"], trace_fields="sg", trace_inv=["TypeOK", "FramesExact"])
