"""C19 - VM memory is proportional to the live activations."""
from common import Broken, apalache, log
from vmfamily import run_family
LEVEL = "model_checking"

CFG = "CONSTANT MaxDepth = 8\nINIT %s\nNEXT Next\nINVARIANT FramesExact\n"


def run(chk):
    # unbounded in frame sizes and memory length: FramesExact is an inductive invariant of the frame discipline TheoFrames
    # (Apalache: Init => Inv at length 0; Inv /\ Next => Inv' at length 1 from an arbitrary state satisfying Inv) ...
    for name, module, init, length in (("base", "TheoFrames", "Init", 0), ("step", "TheoFramesInd", "IndInit", 1)):
        verdict, out = apalache(module, CFG % init, chk.pid, "ind_" + name, "FramesExact", length, init=init)
        if verdict == "error":
            raise Broken("apalache (%s): %s" % (name, out[-1500:]))
        if verdict == "violated":
            chk.violation("c19:inductive:" + name, "FramesExact is not an inductive invariant of TheoFrames (%s case)\n%s" % (name, out[-2500:]), {})
    if not chk.violations:
        chk.cov["inductive_invariant"] = "FramesExact of TheoFrames: base case and inductive step discharged by Apalache (depth <= 8, sizes unbounded)"
        log("C19: FramesExact is inductive for TheoFrames (Apalache)")
    # ... and the specified VM refines TheoFrames on every transition of the complete debugger graph (FramesRefine), besides
    # satisfying the invariant itself there and along every replayed / recorded execution of the real VM
    run_family(chk, invariants=["TypeOK", "FramesExact"], properties=["FramesRefine"],
               s2i_fields=["ip", "data", "stack"], trace_fields="sg", trace_inv=["TypeOK", "FramesExact"])
