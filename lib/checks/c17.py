"""C17 - reset() gives back a fresh machine and the program end is absorbing."""
from vmfamily import run_family
LEVEL = "model_checking"


def run(chk):
    run_family(chk, invariants=["TypeOK", "BrkSync"], properties=["ResetIsInit", "DoneAbsorbing"],
               s2i_fields=["ip", "ops", "data", "stack", "enabled", "stepping", "cur", "done", "views", "ret"],
               trace_fields="osgercv", trace_inv=["TypeOK", "BrkSync"], trace_props=["ResetIsInit", "DoneAbsorbing"],
               style="reset_heavy")
