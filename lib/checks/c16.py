"""C16 - programs cannot recurse: LOOP programs always halt, the call stack is bounded."""
import json
import os

import sem
from common import build, log, rundir, tlc, require_ok, tlc_counterexample
LEVEL = "model_checking"


def neighbours(chk, th, seed, n):
    import random
    import gen
    import parse
    from common import parallel_th
    r = random.Random(seed)
    lists, base = [], []
    banned = {"while", "goto", "if", "then"}
    for i in range(n):
        p = gen.gen_canon(seed * 131 + i, nfiles=0, diverge=0.0, gotos=False, whiles=False, profile=r.choice(["loops", "calls"]))
        toks = parse.tokenize(p["files"]["m"])
        if any(t["k"] in banned for t in toks):
            continue
        names = sorted({t["t"] for t in toks if t["k"] == "id"}) + ["nosuch"]
        heads = [j for j, t in enumerate(toks) if t["k"] == "loop"]
        calls = [j for j, t in enumerate(toks) if t["k"] == "run"]
        for _ in range(10):
            m = [dict(t) for t in toks]
            q = r.random()
            if q < 0.45 and heads:
                j = r.choice(heads)          # LOOP id DO: something between the bound and DO, or another bound
                ins = r.choice([[{"k": "neq0", "t": "neq0"}], [{"k": "eq", "t": "eq"}, {"k": "int", "t": "0"}], [{"k": "int", "t": "1"}],
                                [{"k": "id", "t": r.choice(names)}], [{"k": "plus", "t": "plus"}, {"k": "int", "t": "1"}]])
                if r.random() < 0.8:
                    m[j + 2:j + 2] = ins
                else:
                    m[j + 1:j + 2] = ins
            elif q < 0.8 and calls:
                j = r.choice(calls)          # RUN name WITH: another name (also the enclosing one, a later one, an unknown one), or no arguments
                if r.random() < 0.7:
                    m[j + 1] = {"k": "id", "t": r.choice(names)}
                else:
                    k = j + 3
                    while k < len(m) and m[k]["k"] != "end":
                        k += 1
                    del m[j + 3:k]
            else:
                for _ in range(r.randint(1, 2)):
                    pos = r.randrange(len(m))
                    w = r.random()
                    if w < 0.4:
                        del m[pos]
                    elif w < 0.7:
                        m.insert(pos, dict(r.choice(toks)))
                    elif len(m) > 1:
                        a = r.randrange(len(m) - 1)
                        m[a], m[a + 1] = m[a + 1], m[a]
            if m and not any(t["k"] in banned for t in m):
                lists.append(m)
                base.append(len(toks))
    verdict = parse.decide(chk, lists, name="neigh")
    jobs = [{"i": i, "files": {"m": " ".join(parse.untoken(t, r) for t in m) + "\n"}, "main": "m", "budget": 300000, "every": False, "prog": False}
            for i, m in enumerate(lists)]
    ran = 0
    for recs, rc, err, part in parallel_th(th, ["steptrace"], jobs, timeout=1500):
        if rc != 0:
            chk.violation("c16:neigh:abort", "compile/run of a neighbour of a loop-only source aborted (exit %s): %s" % (rc, err[-1500:]),
                          {"stderr": err[-3000:]})
        for x in recs:
            if "i" not in x or not x.get("ok"):
                continue
            ran += 1
            i = x["i"]
            ndefs = sum(1 for t in lists[i] if t["k"] == "prog")
            src = jobs[i]["files"]["m"]
            if x["maxdepth"] > ndefs + 1:
                chk.violation("c16:neigh:depth:%s" % src[:200], "accepted source %r: activation stack reached depth %d with %d program definitions"
                              % (src, x["maxdepth"], ndefs), {"files": jobs[i]["files"], "main": "m"})
            elif not x["finished"] and not verdict[i]["acc"]:
                chk.violation("c16:neigh:nohalt:%s" % src[:200], "accepted source %r contains neither WHILE nor GOTO (and is not a program of the "
                              "language according to TheoParse) but did not halt within %d VM steps" % (src, jobs[i]["budget"]),
                              {"files": jobs[i]["files"], "main": "m"})
    return ran


def run(chk):
    th = build("plain")
    n = 1500 if chk.thorough else 260
    # sources without WHILE and GOTO: they must halt after exactly the reference run's line events
    loop_only = sem.generate(chk.seed + 16, n, canon=True, gotos=False, whiles=False, diverge=0.0, profile="loops")
    loop_only += sem.generate(chk.seed + 17, n // 2, canon=True, gotos=False, whiles=False, diverge=0.0, profile="calls")
    # arbitrary sources for the depth bound
    mixed = sem.generate(chk.seed + 18, n // 2, canon=True, profile="calls")
    # ... also in arbitrary layouts (nested loops sharing a line, loops produced by macro bodies)
    loop_only += sem.generate(chk.seed + 19, n, canon=False, gotos=False, whiles=False, diverge=0.0, profile="loops")
    # ... with nested uses of macros whose bodies contain LOOPs (hidden counters of nested expansions, library in another file)
    loop_only += sem.generate(chk.seed + 20, n // 2, canon=False, gotos=False, whiles=False, diverge=0.0, profile="macroheavy")
    loop_only += sem.generate(chk.seed + 22, n // 2, canon=False, gotos=False, whiles=False, diverge=0.0, profile="repeats")
    for p in loop_only[::2]:
        p["canon"] = False       # every second one: only the end is logged, with the large instruction budget
    progs = loop_only + mixed
    model = loop_only[:(400 if chk.thorough else 70)]
    # 1. model leg: TheoSem itself (all loop-only ASTs of this run): <>Done under weak fairness, LoopCount, depth bound
    d = rundir(chk.pid, "model_in")
    ap = os.path.join(d, "asts.json")
    with open(ap, "w") as f:
        json.dump([p["ast"] for p in model], f)
    cfg = ("SPECIFICATION FairSpec\nINVARIANT SemTypeOK DepthBound CallsGoDown LoopCount\nPROPERTY Terminates\nCHECK_DEADLOCK FALSE\n")
    res = tlc("TheoSem", cfg, chk.pid, "model", env={"ASTS": ap}, timeout=1500, xmx="12g")
    if not require_ok(res, "TheoSem model"):
        chk.violation("c16:model:" + res.violated, "TheoSem: %s violated on a WHILE/GOTO-free source\n%s" % (res.violated, tlc_counterexample(res)),
                      {"violated": res.violated, "trace": tlc_counterexample(res, 20000)})
    chk.tlc_stats(res)
    # 2. the real compiler and VM: every loop-only source halts within the budget, with exactly the reference line events;
    #    the activation depth never exceeds definitions + 1 (TFinal); reference frames always call "downwards" (CallsGoDown)
    sem.run_real(chk, th, progs)
    for p in progs:
        if "run" not in p:
            continue
        if not p["run"]["ok"]:
            chk.violation("c16:reject:seed%d" % p["seed"], "generated well-formed source rejected: %s" % p["run"].get("errors"),
                          {"files": p["files"], "errors": p["run"].get("errors")})
        elif p["run"]["maxdepth"] > len(p["ast"]["routines"]) + 1:
            chk.violation("c16:depth:seed%d" % p["seed"], "activation stack reached depth %d with %d program definitions"
                          % (p["run"]["maxdepth"], len(p["ast"]["routines"])), {"files": p["files"], "main": p["main"]})
    # 3. reject side: every attempt at self-, forward- and mutual reference between definitions (TheoParse reference skeletons,
    #    also spread over included files, with redefinitions of a name): the compiler's verdict must be TheoParse's
    import parse
    cases = parse.enumerate_cases(chk, 9 if chk.thorough else 8, "chunks", "refs", name="enum_refs")
    cases = [c for c in cases if "run" in parse._seq(c["toks"])]
    nref = parse.replay_verdicts(chk, th, cases, "c16:refs", chk.seed, split=True)
    chk.cov["reference_skeletons"] = nref
    chk.cov["reference_skeletons_rejected_by_spec"] = sum(1 for c in cases if not c["acc"] and not c["dup"])
    # 4. neighbours of WHILE/GOTO-free sources (loop heads and call sites mutated; no WHILE, GOTO or IF token anywhere): whatever the
    #    compiler accepts among them must keep the stack bound, and an accepted source that TheoParse does not even recognise as a
    #    program must not run on beyond any bound the original had
    nn = neighbours(chk, th, chk.seed + 21, 400 if chk.thorough else 80)
    chk.cov["loop_only_neighbours_run"] = nn
    acc, nev = sem.validate(chk, progs)
    chk.cov["traces_validated_against_impl"] = acc
    chk.cov["trace_events"] = nev
    chk.cov["loop_only_programs"] = len(loop_only)
    chk.cov["programs_in_model_leg"] = len(model)
    unfinished = [p for p in loop_only if "run" in p and p["run"]["ok"] and not p["run"]["finished"]]
    chk.cov["loop_only_runs_beyond_budget"] = len(unfinished)
    chk.cov["max_depth_seen"] = max([p["run"]["maxdepth"] for p in progs if "run" in p and p["run"]["ok"]] or [0])
    chk.cov["rule"] = ("TheoSem (TLC, weak fairness) on generated WHILE/GOTO-free ASTs: <>Done, LoopCount (iterations = bound at entry, bodies "
                       "assign to their bound), DepthBound, CallsGoDown; the same sources compiled and stepped for real must produce exactly the "
                       "reference line events and halt (a timeout event has no explanation when the reference run ends); depth <= definitions+1 "
                       "on every real run; reject side: TheoParse reference skeletons (definitions f, g with calls to f, g of several arities, redefinitions) to depth 8, spread over included files, verdicts compared")
    if loop_only:
        chk.sample({"files": loop_only[0]["files"], "vm_steps": loop_only[0].get("run", {}).get("steps")})
    log("C16: model %d states; %d real executions accepted" % (res.distinct, acc))
