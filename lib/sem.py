"""Compiler-correctness family (TheoSem.tla, TheoSemTrace.tla): generate, compile+run for real, validate with TLC."""
import json
import os
import re
import shutil

import gen
from common import REPLAYS as common_REPLAYS
from common import Broken, VERIF, NCPU, run_th, parallel_th, rundir, tlc, tlc_counterexample, log

VM_BUDGET = 60000       # instructions the real VM may execute (final-state comparison)
VM_BUDGET_EVERY = 6000  # ... when every stop is logged and validated (C07)
K = 20                  # upper bound on VM instructions per reference step (see DESIGN.md C01)


def generate(seed, n, canon, **kw):
    out = []
    for i in range(n):
        s = seed * 100003 + i
        p = (gen.gen_canon if canon else gen.gen_free)(s, **kw)
        p["seed"] = s
        out.append(p)
    return out


def run_real(chk, th, progs, want_prog=False, tag="run"):
    """compile + stepping run of every program on the real code; attaches p['run'] (or p['abort'])."""
    for p in progs:
        p["budget"] = VM_BUDGET_EVERY if p["canon"] else VM_BUDGET
    jobs = [{"i": i, "files": p["files"], "main": p["main"], "budget": p["budget"], "every": bool(p["canon"]), "prog": want_prog}
            for i, p in enumerate(progs)]
    for recs, rc, err, part in parallel_th(th, ["steptrace"], jobs, timeout=900):
        for r in recs:
            if "i" in r:
                progs[r["i"]]["run"] = r
        if rc != 0:
            done = {r["i"] for r in recs if "i" in r}
            missing = [j for j in part if j["i"] not in done]
            first = missing[0] if missing else None
            kind = "sanitizer" if ("Sanitizer" in err or "runtime error" in err) else "crash"
            chk.violation("%s:abort:%s" % (tag, kind),
                          "compile/run of a generated program aborted (%s, exit %s): %s" % (kind, rc, err[-2500:]),
                          {"input": first, "stderr": err[-5000:]})
            # the remaining programs of this chunk were not run; rerun them one by one is not needed for a verdict
    return progs


def trace_events(p, ai):
    """ndjson events of one execution for TheoSemTrace (ai = index of the program's AST in ASTS)."""
    run = p["run"]
    every = bool(p["canon"])
    finished = run["finished"]
    minsteps = p["budget"] // K
    # final-only mode of a divergent run: the reference machine only has to survive minsteps steps;
    # otherwise it must be able to replay everything the VM did
    lim = (4 * run["steps"] + 1000) if (finished or every) else minsteps
    evs = [{"e": "load", "a": ai, "every": every, "lim": lim}]
    for s in run["stops"]:
        if s["done"]:
            evs.append({"e": "final", "views": s["views"], "maxdepth": run["maxdepth"]})
        elif every:
            evs.append({"e": "stop", "file": s["file"], "line": s["line"], "views": s["views"]})
    if not finished:
        evs.append({"e": "timeout", "minsteps": minsteps})
    elif "exec_views" in run:
        evs.append({"e": "final2", "views": run["exec_views"], "done": run["exec_done"]})
    if finished and "cli" in p:
        evs.append({"e": "cli", "vars": p["cli"]})
    return evs


def validate(chk, progs, name="sem", batches=None, timeout=1500, invariants=("SemTypeOK", "DepthBound", "CallsGoDown", "LoopCount")):
    """TLC validates all executions; returns (accepted executions, events)."""
    usable = [p for p in progs if "run" in p and p["run"]["ok"]]
    if not usable:
        return 0, 0
    # at most ~1500 executions per TLC run (memory), at least one run per core when there is enough work
    batches = batches or max(min(NCPU, max(1, len(usable) // 3)), (len(usable) + 1499) // 1500)
    batches = min(batches, len(usable))
    groups = [usable[i::batches] for i in range(batches)]
    d = rundir(chk.pid, name + "_in")
    cfg = ("SPECIFICATION TSpec\nINVARIANT %s \nCONSTRAINT Progress\nPOSTCONDITION Accepted\n"
           "CHECK_DEADLOCK FALSE\n") % " ".join(invariants)
    from concurrent.futures import ThreadPoolExecutor

    def one(gi):
        g = groups[gi]
        ap = os.path.join(d, "asts%d.json" % gi)
        tp = os.path.join(d, "trace%d.ndjson" % gi)
        with open(ap, "w") as f:
            json.dump([p["ast"] for p in g], f)
        bounds = []
        with open(tp, "w") as f:
            k = 0
            for ai, p in enumerate(g, 1):
                evs = trace_events(p, ai)
                for ev in evs:
                    f.write(json.dumps(ev, separators=(",", ":")) + "\n")
                bounds.append((k + 1, k + len(evs), p))
                k += len(evs)
        env = {"ASTS": ap, "TRACE": tp}
        r = tlc("TheoSemTrace", cfg, chk.pid, "%s%d" % (name, gi), env=env, workers=1, timeout=timeout, xmx="3g", deque=True)
        if r.violated is not None and not r.error and not r.timed_out:
            r2 = tlc("TheoSemTrace", cfg, chk.pid, "%s%d_again" % (name, gi), env=env, workers=1, timeout=timeout, xmx="3g", deque=True)
            if r2.violated != r.violated:
                raise Broken("trace verdict not repeatable: %s vs %s" % (r.violated, r2.violated))
        return r, tp, ap, g, bounds, k
    with ThreadPoolExecutor(max_workers=min(batches, NCPU)) as ex:
        results = list(ex.map(one, range(len(groups))))
    accepted = 0
    events = 0
    for r, tp, ap, g, bounds, nev in results:
        if r.timed_out or r.error:
            raise Broken("TheoSemTrace: %s" % (r.error or "timeout"))
        chk.add("spec_states_in_validation", r.distinct)
        events += nev
        if r.violated is None:
            accepted += len(g)
            continue
        m = re.search(r'"maxl", (\d+), "of", (\d+)', r.out)
        at = int(m.group(1)) if m else -1
        culprit = next((p for lo, hi, p in bounds if lo <= at <= hi), None)
        accepted += sum(1 for lo, hi, p in bounds if hi < at)
        keep = os.path.join(common_REPLAYS, chk.pid)
        os.makedirs(keep, exist_ok=True)
        rp = {"files": culprit and culprit["files"], "main": culprit and culprit["main"], "seed": culprit and culprit["seed"],
              "ast": culprit and culprit["ast"]}
        evs = [json.loads(x) for x in open(tp)]
        bad = evs[at - 1] if 0 < at <= len(evs) else None
        if r.violated != "postcondition":
            chk.violation("sem:inv:%s" % r.violated, "TheoSemTrace: invariant %s violated while validating a real execution\n%s"
                          % (r.violated, tlc_counterexample(r, 2500)), dict(rp, violated=r.violated))
        else:
            chk.violation("sem:reject:seed%s" % (culprit and culprit["seed"]),
                          "TheoSemTrace rejected a real compile-and-run execution: event %d (%s) has no explanation in the reference "
                          "semantics; program seed %s, sources %s" % (at, json.dumps(bad)[:600], culprit and culprit["seed"],
                                                                    json.dumps(culprit and culprit["files"])[:1500]),
                          dict(rp, event_index=at, event=bad))
    return accepted, events


def refine(chk, th, progs, name="refine", limit=4000, timeout=1500):
    """Model leg (TheoRefine): the ideal machine on the real compiler's bytecode simulates TheoSem. Returns number of programs."""
    jobs = [{"i": i, "files": p["files"], "main": p["main"]} for i, p in enumerate(progs)]
    got = {}
    for recs, rc, err, part in parallel_th(th, ["compile", "--prog"], jobs, timeout=900):
        for r in recs:
            if "ok" in r:
                got[r["i"]] = r
    sel = [(p, got[i]["prog"]) for i, p in enumerate(progs) if i in got and got[i]["ok"]]
    if not sel:
        return 0
    nb = max(min(NCPU, max(1, len(sel) // 20)), (len(sel) + 399) // 400)
    d = rundir(chk.pid, name + "_in")
    from concurrent.futures import ThreadPoolExecutor

    def one(b):
        part = sel[b::nb]
        ap = os.path.join(d, "asts%d.json" % b)
        pp = os.path.join(d, "progs%d.json" % b)
        with open(ap, "w") as f:
            json.dump([p["ast"] for p, _ in part], f)
        with open(pp, "w") as f:
            json.dump([pr for _, pr in part], f)
        cfg = "SPECIFICATION RSpec\nINVARIANT RefineOK SemTypeOK DepthBound\nCONSTRAINT Bounded\nCHECK_DEADLOCK FALSE\n"
        return tlc("TheoRefine", cfg, chk.pid, "%s%d" % (name, b), env={"ASTS": ap, "PROGS": pp, "REFLIMIT": limit}, workers=2, timeout=timeout, xmx="6g"), part
    with ThreadPoolExecutor(max_workers=min(nb, NCPU // 2)) as ex:
        results = list(ex.map(one, range(nb)))
    for res, part in results:
        if res.timed_out or res.error:
            raise Broken("TheoRefine: %s" % (res.error or "timeout"))
        chk.add("refine_states", res.distinct)
        if res.violated:
            m = re.search(r"/\\ a = (\d+)", res.out)
            culprit = part[int(m.group(1)) - 1][0] if m else None
            chk.violation("refine:%s:seed%s" % (res.violated, culprit and culprit["seed"]),
                          "TheoRefine: %s violated - the ideal machine running the real compiler's bytecode does not simulate the source "
                          "semantics (this blames the compiler, the real VM is not involved); program seed %s, sources %s\n%s"
                          % (res.violated, culprit and culprit["seed"], json.dumps(culprit and culprit["files"])[:1200], tlc_counterexample(res, 1500)),
                          {"files": culprit and culprit["files"], "main": culprit and culprit["main"], "violated": res.violated})
    return len(sel)


def run_cli(chk, progs, limit=60):
    """run the repository's command line tool (built by the harness project as theo_cli) on programs that are known to halt;
    attaches p['cli'] = [[name, value]...] as printed after 'variables after execution:'"""
    import subprocess
    import tempfile
    from common import BUILD
    exe = os.path.join(BUILD, "plain", "theo_cli")
    if not os.path.exists(exe):
        raise Broken("theo_cli was not built")
    n = 0
    for p in progs:
        if n >= limit:
            break
        if "run" not in p or not p["run"].get("ok") or not p["run"].get("finished"):
            continue
        with tempfile.TemporaryDirectory(dir=rundir(chk.pid, "cli")) as d:
            for name, text in p["files"].items():
                with open(os.path.join(d, name), "w") as f:
                    f.write(text)
            names = [p["main"]] + sorted(x for x in p["files"] if x != p["main"])
            try:
                r = subprocess.run([exe] + names, cwd=d, capture_output=True, text=True, timeout=60)
            except subprocess.TimeoutExpired:
                chk.violation("cli:hang:seed%s" % p["seed"], "bin/theo did not finish on a program whose stepping run halts", {"files": p["files"]})
                continue
            if r.returncode != 0 or "variables after execution:" not in r.stdout:
                chk.violation("cli:fail:seed%s" % p["seed"], "bin/theo failed (exit %s) on an accepted, halting program: %s" % (r.returncode, r.stdout[-500:]),
                              {"files": p["files"]})
                continue
            vars_ = []
            for line in r.stdout.split("variables after execution:")[1].strip().splitlines():
                if ": " in line:
                    k, v = line.rsplit(": ", 1)
                    try:
                        vars_.append([k, int(v)])
                    except ValueError:
                        pass
            p["cli"] = vars_
            n += 1
    return n
