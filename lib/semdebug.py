#!/usr/bin/env python3
"""semdebug.py canon|free <seed> [event]: validate one generated program, print TLC's behaviour up to the given event."""
import json, os, sys, subprocess
sys.path.insert(0, os.path.dirname(os.path.abspath(__file__)))
import gen, sem, common
kind, seed = sys.argv[1], int(sys.argv[2])
p = (gen.gen_canon if kind == "canon" else gen.gen_free)(seed)
p["seed"] = seed
class C:  # minimal stand-in
    pid = "DBG"
    def violation(self, *a): print("VIOLATION", a[1][:3000])
    def add(self, *a): pass
th = common.build("plain")
sem.run_real(C(), th, [p])
for f, t in p["files"].items(): print("=== %s ===\n%s" % (f, "".join("%3d %s\n" % (i+1, l) for i, l in enumerate(t.splitlines()))))
evs = sem.trace_events(p, 1)
for i, e in enumerate(evs, 1): print(i, json.dumps(e)[:300])
d = common.rundir("DBG", "in")
json.dump([p["ast"]], open(d + "/asts.json", "w")); open(d + "/t.ndjson", "w").write("".join(json.dumps(e) + "\n" for e in evs))
dl = sys.argv[3] if len(sys.argv) > 3 else str(len(evs) + 1)
cfg = "SPECIFICATION TSpec\nINVARIANT SemTypeOK DepthBound CallsGoDown LoopCount DebugStop\nCONSTRAINT Progress\nPOSTCONDITION Accepted\nCHECK_DEADLOCK FALSE\n"
r = common.tlc("TheoSemTrace", cfg, "DBG", "run", env={"ASTS": d + "/asts.json", "TRACE": d + "/t.ndjson", "DEBUGL": dl}, workers=1, deque=True)
print(r.violated, r.error); print(r.out[-int(os.environ.get("TAIL", "3000")):])
