"""VM/debugger family (TheoVM.tla, TheoVMTrace.tla): corpus, complete graphs, S->I histories, I->S traces."""
import glob
import json
import os
import random

from common import REPLAYS as common_REPLAYS
from common import (Broken, VERIF, NCPU, build, run_th, parallel_th, rundir, tlc, require_ok,
                    tlc_counterexample, log)

CORPUS = os.path.join(VERIF, "corpus", "vm")

ALL_INV = ["TypeOK", "NoStuck", "BrkSync", "Transparent", "StopExact", "StartNone", "FramesExact",
           "WordsInRange", "DepthBound", "TablesInv"]
ALL_PROP = ["ResetIsInit", "DoneAbsorbing"]


def load_corpus(names=None):
    """[(name, {"files":..,"main":..})] of the hand-written VM corpus (all terminate)."""
    out = []
    for f in sorted(glob.glob(os.path.join(CORPUS, "*.theo")) + glob.glob(os.path.join(CORPUS, "*.json")),
                    key=os.path.basename):
        n = os.path.basename(f)[:-5]
        if names and n not in names:
            continue
        if f.endswith(".json"):
            out.append((n, json.load(open(f))))      # several files: {"files":{..},"main":..}
        else:
            out.append((n, {"files": {"m": open(f).read()}, "main": "m"}))
    return out


def compile_progs(th, sources):
    """Compile with the real compiler; returns list of dumped programs (same order); raises if one fails."""
    recs, rc, err = run_th(th, ["compile", "--prog"], [dict(s, i=i) for i, (_, s) in enumerate(sources)])
    res = {r["i"]: r for r in recs if "ok" in r}
    progs = []
    for i, (n, _) in enumerate(sources):
        r = res.get(i)
        if r is None or not r["ok"]:
            raise Broken("corpus program %s does not compile: %s" % (n, r and r["errors"]))
        r["prog"].setdefault("arity", [])       # parameter counts by definition order when known (TheoVMAbs)
        r["prog"].setdefault("toklines", [])    # (file, line) pairs carrying program text when known (C08)
        r["prog"].setdefault("avail", [[e["file"], e["line"]] for e in r["prog"]["pbs"]])
        progs.append(r["prog"])
    return progs


def compile_progs_lenient(th, sources):
    """like compile_progs, but a rejected source yields a placeholder program (so that indices stay aligned)"""
    recs, rc, err = run_th(th, ["compile", "--prog"], [dict(s, i=i) for i, (_, s) in enumerate(sources)])
    res = {r["i"]: r for r in recs if "ok" in r}
    progs = []
    for i, (n, _) in enumerate(sources):
        r = res.get(i)
        if r is not None and r["ok"]:
            r["prog"].setdefault("arity", [])
            r["prog"].setdefault("toklines", [])
            r["prog"].setdefault("avail", [[e["file"], e["line"]] for e in r["prog"]["pbs"]])
            progs.append(r["prog"])
        else:
            progs.append({"code": [{"op": "PREP", "a": 0, "b": 0, "c": 0}, {"op": "HALT", "a": 0, "b": 0, "c": 0}],
                          "maps": [{"name": "#root", "regs": []}], "pbs": [], "sites": [], "arity": [], "toklines": [], "avail": []})
    return progs


def write_progs(d, progs):
    p = os.path.join(d, "progs.json")
    with open(p, "w") as f:
        json.dump(progs, f)
    return p


def graph_check(chk, sources, progs, invariants, properties, name="graph", timeout=900, xmx="12g"):
    """Complete state graph over all debugger histories of every program; returns TlcResult."""
    d = rundir(chk.pid, name + "_in")
    pp = write_progs(d, progs)
    cfg = "SPECIFICATION Spec\nINVARIANT %s\n%sVIEW GraphView\nCHECK_DEADLOCK FALSE\n" % (
        " ".join(invariants), ("PROPERTY " + " ".join(properties) + "\n") if properties else "")
    if "FramesRefine" in properties:
        cfg += "CONSTANT Sizes <- [TheoFrames] FiniteSizes\n"      # TLC cannot enumerate Nat
    res = tlc("TheoVM", cfg, chk.pid, name, env={"PROGS": pp, "HISTK": "0"}, timeout=timeout, xmx=xmx, coverage=False)
    if not require_ok(res, "TheoVM graph"):
        chk.violation("graph:" + res.violated,
                      "TheoVM: %s violated on the complete debugger state graph of the compiled corpus\n%s"
                      % (res.violated, tlc_counterexample(res)),
                      {"kind": "tlc-counterexample", "module": "TheoVM", "violated": res.violated,
                       "programs": [n for n, _ in sources], "trace": tlc_counterexample(res, 20000)})
    chk.tlc_stats(res)
    return res


# ---- S->I ---------------------------------------------------------------------------------------
def _norm_obs_spec(o):
    """Normalise an expected observation printed by TLC (ToJson) into comparable python values."""
    def lst(x):
        if isinstance(x, dict):
            return [x[k] for k in sorted(x, key=lambda s: int(s))] if x else []
        return list(x) if x else []
    views = [sorted((str(a), int(b)) for a, b in lst(v)) for v in lst(o["views"])]
    return {"ip": o["ip"], "ops": sorted((int(a), b) for a, b in lst(o["ops"])), "data": lst(o["data"]),
            "stack": [{k: fr[k] for k in ("base", "size", "rt", "ra", "map")} for fr in lst(o["stack"])],
            "enabled": sorted((a, int(b)) for a, b in lst(o["enabled"])), "stepping": o["stepping"], "ret": o["ret"],
            "cur": (o["cur"][0], int(o["cur"][1])), "done": o["done"], "views": views}


def _norm_obs_impl(o):
    return {"ip": o["ip"], "ops": sorted((int(a), b) for a, b in o["ops"]), "data": o["data"],
            "stack": [{k: fr[k] for k in ("base", "size", "rt", "ra", "map")} for fr in o["stack"]],
            "enabled": sorted((a, int(b)) for a, b in o["enabled"]), "stepping": o["stepping"], "ret": o["ret"],
            "cur": (o["cur"][0], int(o["cur"][1])), "done": o["done"],
            "views": [sorted((str(a), int(b)) for a, b in v) for v in o["views"]]}


def hist_cases(chk, progs, k, name="hist", timeout=900, simulate=None, depth=None):
    """All API histories of length k (or simulated ones) with expected observations, from TLC."""
    d = rundir(chk.pid, name + "_in")
    pp = write_progs(d, progs)
    cfg = "SPECIFICATION Spec\nINVARIANT TypeOK\nCONSTRAINT HistBound\nCHECK_DEADLOCK FALSE\n"
    res = tlc("TheoVM", cfg, chk.pid, name, env={"PROGS": pp, "HISTK": str(k)}, timeout=timeout, xmx="12g",
              simulate=simulate, depth=depth, seed=chk.seed if simulate else None)
    require_ok(res, "TheoVM hist")
    if not simulate:
        chk.tlc_stats(res)
    return res.cases


def replay_cases(chk, th, sources, cases, fields, what):
    """Replay TLC histories on the real VM; compare `fields` of every observation. Returns #calls compared."""
    by_p = {}
    for c in cases:
        by_p.setdefault(c["p"], []).append(c)
    compared = 0
    for p, cs in sorted(by_p.items()):
        name, src = sources[p - 1]
        inputs = [{"i": i, "h": [st["c"] for st in c["h"]]} for i, c in enumerate(cs)]
        nchunks = max(1, min(NCPU, len(inputs) // 200 + 1))
        size = (len(inputs) + nchunks - 1) // nchunks
        parts = [inputs[i:i + size] for i in range(0, len(inputs), size)]
        from concurrent.futures import ThreadPoolExecutor
        with ThreadPoolExecutor(max_workers=len(parts)) as ex:
            results = list(ex.map(lambda part: run_th(th, ["vmreplay"], [{"load": src}] + part, timeout=600), parts))
        got = {}
        for (recs, rc, err), part in zip(results, parts):
            for r in recs:
                if "hang" in r:
                    c = cs[r["hang"]]
                    chk.violation("%s:hang:%s" % (what, name), "real VM did not return from a call that the specification "
                                  "completes; program %s history %s" % (name, [st["c"] for st in c["h"]]),
                                  {"program": src, "history": [st["c"] for st in c["h"]]})
                elif "obs" in r:
                    got[r["i"]] = r["obs"]
            if rc not in (0, 75):
                begun = [r["b"] for r in recs if "b" in r]
                if (rc < 0 or rc in (97, 98, 99, 134, 139)) and begun:
                    c = cs[begun[-1]]
                    hist = [st["c"] for st in c["h"]]
                    chk.violation("%s:abort:%s" % (what, name), "the real VM crashed (exit %s) while replaying history %s on program %s, "
                                  "which the specification completes: %s" % (rc, hist, name, err[-1200:]),
                                  {"program": src, "history": hist, "stderr": err[-4000:]})
                else:
                    raise Broken("vmreplay exited %s on %s: %s" % (rc, name, err[-1500:]))
        for i, c in enumerate(cs):
            if i not in got:
                continue
            for j, st in enumerate(c["h"]):
                exp = _norm_obs_spec(st["o"])
                act = _norm_obs_impl(got[i][j])
                # a frame's return address is set by EXEC; before that (-1 in the specification) the field is unconstrained
                for fe, fa in zip(exp["stack"], act["stack"]):
                    if fe["ra"] == -1:
                        fa["ra"] = -1
                bad = [f for f in fields if exp[f] != act[f]]
                compared += 1
                if bad:
                    hist = [s["c"] for s in c["h"]][:j + 1]
                    chk.violation("%s:%s:%s" % (what, name, json.dumps(hist)),
                                  "S->I mismatch on program %s after history %s: field(s) %s; specification %s, real VM %s"
                                  % (name, hist, bad, {f: exp[f] for f in bad}, {f: act[f] for f in bad}),
                                  {"program": src, "history": hist, "expected": {f: exp[f] for f in bad},
                                   "actual": {f: act[f] for f in bad}})
                    break
        if cs:
            chk.sample({"program": name, "history": [s["c"] for s in cs[len(cs) // 2]["h"]],
                        "expected_last_observation": {f: _norm_obs_spec(cs[len(cs) // 2]["h"][-1]["o"])[f] for f in fields}})
    return compared


# ---- I->S ---------------------------------------------------------------------------------------
TRACE_INV = ["TypeOK", "NoStuck", "BrkSync", "Transparent", "StopExact", "StartNone", "FramesExact",
             "WordsInRange", "DepthBound"]


def record_traces(chk, th, sources, calls, runs_per_prog, seed, style="mixed", may_diverge=None, tag="trace"):
    """Drive the real VM; returns list of event lists (one per execution)."""
    rng = random.Random(seed)
    jobs = []
    for p, (name, src) in enumerate(sources, 1):
        for r in range(runs_per_prog):
            # every second execution copies the machine at a random point (and later moves the copy): the copy's log is a further execution
            jobs.append(dict(src, p=p, seed=rng.randrange(1 << 30), calls=calls, style=style, fork=(r % 2 == 1),
                             may_diverge=bool(may_diverge and may_diverge[p - 1])))
    execs = []
    for recs, rc, err, part in parallel_th(th, ["vmtrace"], jobs, timeout=900):
        if rc != 0:
            bad = [r for r in recs if "hang" in r]
            if bad:
                name = sources[bad[0]["hang"] - 1][0]
                chk.violation("%s:hang:%s" % (tag, name), "real VM did not return from a call (program %s)" % name,
                              {"program": sources[bad[0]["hang"] - 1][1]})
            else:
                _abort_violation(chk, tag, rc, err, recs)
        cur = None
        for r in recs:
            if r.get("e") == "load":
                cur = [r]
                execs.append(cur)
            elif "e" in r and cur is not None:
                cur.append(r)
    return execs


def record_walks(chk, th, sources, max_states, tag="walk"):
    """Exhaustive walks of the real VM's reachable state graph (th vmwalk), one per program small enough; returns (execs, stats)."""
    jobs = [dict(src, p=p, max_states=max_states) for p, (name, src) in enumerate(sources, 1)]
    execs, stats = [], []
    for recs, rc, err, part in parallel_th(th, ["vmwalk"], jobs, chunks=len(jobs), timeout=1800):
        if rc != 0:
            bad = [r for r in recs if "hang" in r]
            if bad:
                chk.violation("%s:hang" % tag, "real VM did not return from a call during the exhaustive walk", {"program": part[0]})
            else:
                _abort_violation(chk, tag, rc, err, recs)
            continue
        cur = None
        for r in recs:
            if r.get("e") == "load":
                cur = [r]
            elif "walk" in r:
                stats.append(r)
                if r["complete"] and cur is not None:
                    execs.append(cur)
                cur = None
            elif "e" in r and cur is not None:
                cur.append(r)
    return execs, stats


def _abort_violation(chk, tag, rc, err, recs):
    kind = "sanitizer" if ("Sanitizer" in err or "runtime error" in err) else "crash"
    chk.violation("%s:abort:%s" % (tag, kind), "harness process aborted (rc=%s, %s) while driving the real VM:\n%s"
                  % (rc, kind, err[-3000:]), {"stderr": err[-6000:], "last_events": recs[-3:]})


def validate_traces(chk, execs, progs, fields, invariants, properties=(), name="tv", batches=None, timeout=900):
    """TLC validates the recorded executions against TheoVMTrace; returns number of accepted executions."""
    if not execs:
        return 0
    batches = batches or min(NCPU, max(1, len(execs) // 4))
    groups = [execs[i::batches] for i in range(batches)]
    d = rundir(chk.pid, name + "_in")
    pp = write_progs(d, progs)
    cfg = ("SPECIFICATION TSpec\nINVARIANT %s\n%sCONSTRAINT Progress\nPOSTCONDITION Accepted\n"
           "CHECK_DEADLOCK FALSE\n") % (" ".join(invariants), ("PROPERTY " + " ".join(properties) + "\n") if properties else "")
    from concurrent.futures import ThreadPoolExecutor

    def one(gi):
        g = groups[gi]
        tp = os.path.join(d, "trace%d.ndjson" % gi)
        with open(tp, "w") as f:
            for ex in g:
                for ev in ex:
                    f.write(json.dumps(ev, separators=(",", ":")) + "\n")
        env = {"PROGS": pp, "HISTK": "0", "TRACE": tp, "FIELDS": fields}
        r = tlc("TheoVMTrace", cfg, chk.pid, "%s%d" % (name, gi), env=env, workers=1, timeout=timeout, xmx="4g")
        if r.violated is not None and not r.error and not r.timed_out:
            # rejected (or another invariant violated): repeat once, a rejection must be repeatable
            r2 = tlc("TheoVMTrace", cfg, chk.pid, "%s%d_again" % (name, gi), env=env, workers=1, timeout=timeout, xmx="4g")
            if r2.violated != r.violated:
                raise Broken("trace verdict not repeatable: %s vs %s" % (r.violated, r2.violated))
        return r, tp, g
    with ThreadPoolExecutor(max_workers=batches) as ex:
        results = list(ex.map(one, range(len(groups))))
    accepted = 0
    for r, tp, g in results:
        if r.timed_out or r.error:
            raise Broken("TheoVMTrace: %s" % (r.error or "timeout"))
        chk.add("spec_states_in_validation", r.distinct)
        if r.violated is None:
            accepted += len(g)
            continue
        import re
        import shutil
        m = re.search(r'"maxl", (\d+), "of", (\d+)', r.out)
        keep = os.path.join(common_REPLAYS, chk.pid)
        os.makedirs(keep, exist_ok=True)
        kept = os.path.join(keep, os.path.basename(tp))
        shutil.copy(tp, kept)
        if r.violated != "postcondition":
            chk.violation("trace:inv:" + r.violated, "TheoVMTrace: invariant %s violated along a recorded execution of the real VM "
                          "(trace %s)\n%s" % (r.violated, kept, tlc_counterexample(r, 3000)),
                          {"trace_file": kept, "violated": r.violated, "fields": fields})
        else:
            at = int(m.group(1)) if m else -1
            evs = [ev for ex in g for ev in ex]
            bad = evs[at - 1] if 0 < at <= len(evs) else None
            chk.violation("trace:reject:%s" % (bad and bad.get("e")), "TheoVMTrace rejected a recorded execution of the real VM: event %d "
                          "cannot be explained by any specification action (bound fields '%s'): %s"
                          % (at, fields, json.dumps(bad)[:1500]), {"trace_file": kept, "event_index": at, "event": bad, "fields": fields})
    return accepted


# ---- boundary programs (values approaching 2^31): used by C20 and, for trace validation only, by the VM family ------------
M = 2147483646      # largest accepted literal
H = 1073741823


def boundary_programs():
    P = []

    def add(name, text):
        P.append((name, {"files": {"m": text}, "main": "m"}))
    add("max_plus_5", "x := %d; x := x + 5; y := x" % M)
    add("max_plus_1_twice", "x := %d; x := x + 1; x := x + 1; x := x + 1; y := x - 1" % M)
    add("one_plus_max", "x := 1; y := x + %d; z := y + 1; w := z + %d; v := w + 1" % (M, M))
    add("half_sums", "x := %d; y := x + %d; z := y + %d; w := z + %d" % (H, H, H, H))
    add("zero_minus", "x := 0; x := x - 1; y := x - %d; z := 5; z := z - %d; w := z" % (M, M))
    add("max_minus_max", "x := %d; y := x - %d; z := x - %d; x := x + 1; v := x - %d" % (M, M, M - 1, M))
    add("through_calls", "PROGRAM inc IN a OUT a DO a := a + %d END\nPROGRAM two IN a OUT r DO r := RUN inc WITH a END; r := RUN inc WITH r END END\n"
        "x := RUN two WITH 3 END; y := RUN two WITH x END; z := RUN inc WITH %d END" % (H, M))
    add("loop_doubling", "PROGRAM dbl IN a OUT r DO r := a; r := r + %d; r := r + %d END\nx := 1; n := 4; LOOP n DO x := RUN dbl WITH x END END" % (H, H))
    add("loop_counter_zero", "x := 0; LOOP x DO y := 1 END; x := 1; LOOP x DO x := x - 1; y := y - 1 END")
    add("big_loop_stop", "x := %d; LOOP x DO y := y + %d; n := n + 1; IF n = 3 THEN GOTO e; y := y + 0 END; e: STOP" % (M, M))
    add("test_at_max", "x := %d; x := x + 9; IF x = %d THEN GOTO a; y := 1; a: z := x; IF z = 0 THEN GOTO b; w := 1; b: w := w + 1" % (M, M))
    add("while_from_max", "x := %d; x := x + 1; n := 3; WHILE n != 0 DO x := x + %d; n := n - 1 END; WHILE x != 0 DO x := x - %d END" % (M, H, H))
    add("sugar_plus_zero", "x := %d; x := x + 0; x := x - 0; y := x + %d" % (M, M))
    return P


def random_boundary_programs(seed, n):
    """straight-line and looping arithmetic around the top of the word range (all literals are accepted ones)"""
    import random as _r
    r = _r.Random(seed)
    consts = [0, 1, 2, 5, H - 1, H, H + 1, M - 2, M - 1, M]
    out = []
    for k in range(n):
        lines = ["PROGRAM bump IN a OUT a DO a := a + %d END" % r.choice(consts),
                 "PROGRAM drop IN a OUT a DO a := a - %d END" % r.choice(consts),
                 "x := %d; y := %d; z := 3;" % (r.choice(consts), r.choice(consts))]
        stmts = []
        for _ in range(r.randint(6, 14)):
            v, w = r.choice("xyz"), r.choice("xyz")
            q = r.random()
            if q < 0.4:
                stmts.append("%s := %s + %d" % (v, w, r.choice(consts)))
            elif q < 0.6:
                stmts.append("%s := %s - %d" % (v, w, r.choice(consts)))
            elif q < 0.7:
                stmts.append("%s := %s" % (v, w))
            elif q < 0.85:
                stmts.append("%s := RUN %s WITH %s END" % (v, r.choice(["bump", "drop"]), w))
            elif q < 0.93:
                stmts.append("LOOP z DO %s := %s + %d; z := z - 1 END" % (v, v, r.choice(consts)))
            else:
                stmts.append("IF %s = %d THEN GOTO skip%d; %s := %s + 1; skip%d: %s := %s - 0" % (v, r.choice(consts), len(stmts), w, w, len(stmts), w, w))
        lines.append(";\n".join(stmts))
        out.append(("rnd%d" % k, {"files": {"m": "\n".join(lines) + "\n"}, "main": "m"}))
    return out
