"""Shared machinery of /verif checks: harness builds, TLC runs, evidence, findings, verdicts.

Exit codes of a check: 0 = property held on everything explored; 1 = violation (VIOLATION line
printed); 2 = the check itself is broken (build failure, TLC parse error, timeout of the checker).
"""
import fcntl
import json
import os
import re
import shutil
import subprocess
import sys
import time

VERIF = os.path.dirname(os.path.dirname(os.path.abspath(__file__)))
REPO = os.environ.get("THEO_REPO", "/repo")
SPEC = os.path.join(VERIF, "spec")
# VERIF_SCRATCH redirects every output of a run (builds, run directories, replays, evidence) - used to try the checks on a
# scratch copy of the repository (THEO_REPO) without disturbing /verif's own build and evidence
_OUT = os.environ.get("VERIF_SCRATCH") or VERIF
BUILD = os.path.join(_OUT, "build")
RUN = os.path.join(_OUT, "run")
REPLAYS = os.path.join(_OUT, "replays")
EVIDENCE = os.path.join(_OUT, "evidence")
JAVA_CP = "/opt/veriftools/tla/tla2tools.jar:/opt/veriftools/tla/CommunityModules-deps.jar"
NCPU = os.cpu_count() or 4


class Broken(Exception):
    """The checking machinery failed (not a verdict about the property)."""


def log(*a):
    print(*a, file=sys.stderr, flush=True)


# ----------------------------------------------------------------------------------------------
# builds
# ----------------------------------------------------------------------------------------------
def build(variant="plain"):
    """(Re)build the harness against /repo's current working tree; returns the path of `th`."""
    bdir = os.path.join(BUILD, variant)
    os.makedirs(bdir, exist_ok=True)
    lock = open(os.path.join(BUILD, ".lock-" + variant), "w")
    fcntl.flock(lock, fcntl.LOCK_EX)
    try:
        if not os.path.exists(os.path.join(bdir, "build.ninja")):
            r = subprocess.run(["cmake", "-G", "Ninja", "-DVARIANT=" + variant, "-DR=" + REPO,
                                os.path.join(VERIF, "harness")], cwd=bdir, capture_output=True, text=True)
            if r.returncode != 0:
                raise Broken("cmake failed for %s:\n%s" % (variant, r.stdout[-2000:] + r.stderr[-2000:]))
        r = subprocess.run(["ninja"], cwd=bdir, capture_output=True, text=True)
        if r.returncode != 0:
            raise Broken("harness build failed for %s:\n%s" % (variant, (r.stdout + r.stderr)[-4000:]))
    finally:
        fcntl.flock(lock, fcntl.LOCK_UN)
        lock.close()
    return os.path.join(bdir, "th")


def rundir(pid, name):
    d = os.path.join(RUN, pid, name)
    if os.path.exists(d):
        shutil.rmtree(d, ignore_errors=True)
    os.makedirs(d, exist_ok=True)
    return d


# ----------------------------------------------------------------------------------------------
# harness invocation
# ----------------------------------------------------------------------------------------------
SAN_ENV = {
    "ASAN_OPTIONS": "detect_leaks=1:abort_on_error=0:exitcode=99:allocator_may_return_null=1:detect_stack_use_after_return=0",
    "UBSAN_OPTIONS": "print_stacktrace=1:halt_on_error=1:exitcode=98",
    "TSAN_OPTIONS": "exitcode=97:halt_on_error=0:second_deadlock_stack=1",
}


def run_th(th, cmd, inputs, timeout=600, extra_env=None, stderr_path=None):
    """Run `th <cmd...>` with ndjson `inputs` (list of dicts or str) on stdin.

    Returns (list of parsed output records, returncode, stderr text). A timeout returns rc = -9.
    """
    if isinstance(inputs, (list, tuple)):
        data = "".join(json.dumps(x, separators=(",", ":")) + "\n" for x in inputs)
    else:
        data = inputs
    env = dict(os.environ)
    env.update(SAN_ENV)
    if extra_env:
        env.update(extra_env)
    try:
        r = subprocess.run([th] + list(cmd), input=data.encode(), capture_output=True, timeout=timeout, env=env)
        out, err, rc = r.stdout, r.stderr, r.returncode
    except subprocess.TimeoutExpired as e:
        out, err, rc = e.stdout or b"", e.stderr or b"", -9
    recs = []
    for line in out.decode("utf-8", "replace").splitlines():
        line = line.strip()
        if not line.startswith("{"):
            continue
        try:
            recs.append(json.loads(line))
        except ValueError:
            pass
    errt = err.decode("utf-8", "replace")
    if stderr_path:
        with open(stderr_path, "w") as f:
            f.write(errt)
    return recs, rc, errt


def parallel_th(th, cmd, inputs, chunks=None, timeout=600, extra_env=None):
    """Split inputs over `chunks` harness processes; returns list of (records, rc, stderr, chunk_inputs)."""
    from concurrent.futures import ThreadPoolExecutor
    chunks = chunks or NCPU
    n = len(inputs)
    if n == 0:
        return []
    chunks = min(chunks, n)
    parts = [inputs[i::chunks] for i in range(chunks)]      # round robin: expensive inputs tend to be neighbours
    with ThreadPoolExecutor(max_workers=len(parts)) as ex:
        res = list(ex.map(lambda p: run_th(th, cmd, p, timeout, extra_env) + (p,), parts))
    return res


# ----------------------------------------------------------------------------------------------
# TLC
# ----------------------------------------------------------------------------------------------
class TlcResult:
    def __init__(self):
        self.rc = None
        self.out = ""
        self.generated = 0
        self.distinct = 0
        self.cases = []          # decoded "@@" JSON lines
        self.violated = None     # name of violated invariant/property, or "deadlock", "postcondition"
        self.error = None        # checker-level error text (parse error, exception, overflow...)
        self.timed_out = False
        self.wall = 0.0
        self.coverage = {}       # action -> (taken, generated) when -coverage was on
        self.prints = []         # other PrintT output lines

    @property
    def ok(self):
        return self.violated is None and self.error is None and not self.timed_out


_UNESC = re.compile(r'\\(.)')


def _decode_case(line):
    # PrintT("@@" \o ToJson(x)) prints  "@@{\"a\":1}"  (a TLA+ string literal with escapes)
    s = line.strip()
    if s.startswith('"') and s.endswith('"'):
        s = s[1:-1]
        s = _UNESC.sub(lambda m: {"n": "\n", "t": "\t"}.get(m.group(1), m.group(1)), s)
    assert s.startswith("@@"), s[:40]
    return json.loads(s[2:])


def tlc(module, cfg, pid, name, env=None, workers=None, timeout=1200, xmx="8g", simulate=None,
        depth=None, seed=None, coverage=False, deque=False, extra=None, keep_cases=True, case_sink=None):
    """Run TLC on spec/<module>.tla with config text `cfg`. Never raises on a property violation."""
    d = rundir(pid, name)
    cfgp = os.path.join(d, module + ".cfg")
    with open(cfgp, "w") as f:
        f.write(cfg)
    workers = workers or NCPU
    jopts = ["-XX:+UseParallelGC", "-Xmx" + xmx, "-Xss64m"]
    if deque:
        jopts.append("-Dtlc2.tool.queue.IStateQueue=StateDeque")
    cmd = ["java"] + jopts + ["-cp", JAVA_CP, "tlc2.TLC", "-workers", str(workers), "-metadir",
                              os.path.join(d, "md"), "-config", cfgp, "-noGenerateSpecTE"]
    if simulate:
        cmd += ["-simulate", "num=%d" % simulate]
        if depth:
            cmd += ["-depth", str(depth)]
    if seed is not None:
        cmd += ["-seed", str(seed)]
    if coverage:
        cmd += ["-coverage", "1"]
    if extra:
        cmd += list(extra)
    cmd.append(module + ".tla")
    e = dict(os.environ)
    if env:
        e.update({k: str(v) for k, v in env.items()})
    res = TlcResult()
    t0 = time.time()
    outp = os.path.join(d, "tlc.out")
    with open(outp, "w") as fo:
        try:
            p = subprocess.run(["timeout", "-k", "10", str(int(timeout))] + cmd, cwd=SPEC, stdout=fo,
                               stderr=subprocess.STDOUT, env=e)
            res.rc = p.returncode
        except Exception as ex:  # pragma: no cover
            res.rc = -1
            res.error = repr(ex)
    res.wall = time.time() - t0
    shutil.rmtree(os.path.join(d, "md"), ignore_errors=True)
    if res.rc == 124 or res.rc == 137:
        res.timed_out = True
    tail = []
    with open(outp, errors="replace") as f:
        for line in f:
            if line.startswith('"@@'):
                if case_sink is not None:
                    case_sink(_decode_case(line))
                elif keep_cases:
                    res.cases.append(_decode_case(line))
                continue
            tail.append(line)
            if len(tail) > 4000:
                del tail[:2000]
            m = re.match(r"(\d+) states generated, (\d+) distinct states found", line)
            if m:
                res.generated, res.distinct = int(m.group(1)), int(m.group(2))
            m = re.match(r"Error: Invariant (\S+) is violated", line)
            if m:
                res.violated = m.group(1)
            m = re.match(r"Error: Action property (.+?) is violated", line)
            if m:
                # a named property, or "line 44, col 17 to line 44, col 40 of module TheoFrames" for one inside an instantiated module
                w = m.group(1)
                mm = re.match(r"line (\d+), col \d+ to line \d+, col \d+ of module (\w+)", w)
                res.violated = ("action-property@%s:%s" % (mm.group(2), mm.group(1))) if mm else w
            if line.startswith("Error: Temporal properties were violated"):
                res.violated = res.violated or "temporal"
            if line.startswith("Error: Deadlock reached"):
                res.violated = "deadlock"
            if line.startswith("Error: Postcondition"):
                res.violated = res.violated or "postcondition"
            m = re.match(r"<(\w+) line \d+, col \d+ to line \d+, col \d+ of module \w+>: (\d+):(\d+)", line)
            if m:
                res.coverage[m.group(1)] = (int(m.group(2)), int(m.group(3)))
    res.out = "".join(tail)
    if res.violated is None and not res.timed_out:
        if res.rc != 0 or "Model checking completed. No error has been found" not in res.out and \
                "Finished in" not in res.out and not simulate:
            m = re.search(r"(Error: .*(?:\n.*){0,12})", res.out)
            res.error = m.group(1) if m else "TLC exit %s" % res.rc
        # simulation mode never prints 'No error has been found' before the timeout; rc 0 is enough
    if res.violated and res.rc not in (12, 13, 10, 11, 1):
        pass
    return res


def require_ok(res, what):
    """Raise Broken for checker-level failures; return True if no violation."""
    if res.timed_out:
        raise Broken("%s: TLC timed out after %.0fs" % (what, res.wall))
    if res.error:
        raise Broken("%s: TLC failed: %s" % (what, res.error))
    return res.violated is None


def apalache(module, cfg, pid, name, inv, length, init=None, timeout=900):
    """apalache-mc check on spec/<module>.tla (bounded symbolic check; used for inductive-invariant steps).
    Returns ("ok" | "violated" | "error", output text)."""
    d = rundir(pid, name)
    cfgp = os.path.join(d, module + ".cfg")
    with open(cfgp, "w") as f:
        f.write(cfg)
    cmd = ["apalache-mc", "check", "--out-dir=" + os.path.join(d, "out"), "--config=" + cfgp, "--length=%d" % length, "--inv=" + inv]
    if init:
        cmd.append("--init=" + init)
    cmd.append(os.path.join(VERIF, "spec", module + ".tla"))
    try:
        r = subprocess.run(cmd, cwd=d, capture_output=True, text=True, timeout=timeout)
    except subprocess.TimeoutExpired:
        return "error", "timeout"
    out = r.stdout + r.stderr
    with open(os.path.join(d, "apalache.out"), "w") as f:
        f.write(out)
    if "EXITCODE: OK" in out and "The outcome is: NoError" in out:
        return "ok", out
    if "The outcome is: Error" in out:
        return "violated", out
    return "error", out


def tlc_counterexample(res, maxlen=6000):
    """Extract the printed error trace of a violation run (text)."""
    i = res.out.find("Error:")
    return res.out[i:i + maxlen] if i >= 0 else res.out[-maxlen:]


# ----------------------------------------------------------------------------------------------
# verdicts, evidence, known findings
# ----------------------------------------------------------------------------------------------
class Check:
    def __init__(self, pid, level):
        self.pid = pid
        self.level = level
        self.tier = os.environ.get("VERIF_TIER", "quick")
        self.seed = int(os.environ.get("VERIF_SEED", "1") or 1)
        self.t0 = time.time()
        self.cov = {"samples": []}
        self.assumptions = []
        self.violations = []   # (key, description, replay_path)
        self.known = _load_known(pid)
        self.reported_known = set()
        shutil.rmtree(os.path.join(REPLAYS, pid), ignore_errors=True)     # replay files of earlier runs are stale

    @property
    def thorough(self):
        return self.tier == "thorough"

    def add(self, key, n=1):
        self.cov[key] = self.cov.get(key, 0) + n

    def sample(self, s, cap=6):
        if len(self.cov["samples"]) < cap:
            self.cov["samples"].append(s)

    def tlc_stats(self, res):
        self.add("states", res.distinct)
        self.add("transitions", res.generated)

    def violation(self, key, desc, replay_obj):
        """Record a violation; `key` identifies the failing input for the known-findings file."""
        for k in self.known:
            if k["status"] == "open" and k["key"] == key:
                if key not in self.reported_known:
                    self.reported_known.add(key)
                    print("KNOWN-FINDING: property=%s %s" % (self.pid, k["what"]), flush=True)
                return
        os.makedirs(os.path.join(REPLAYS, self.pid), exist_ok=True)
        path = os.path.join(REPLAYS, self.pid, "v%03d.json" % (len(self.violations) + 1))
        with open(path, "w") as f:
            json.dump({"property": self.pid, "key": key, "description": desc, "case": replay_obj}, f, indent=1, default=str)
        self.violations.append((key, desc, path))
        log("violation[%s]: %s" % (self.pid, desc[:2000]))

    def finish(self):
        wall = time.time() - self.t0
        cov = self.cov
        if not cov["samples"]:
            cov["samples"] = ["(no sample recorded)"]
        ev = {"property_id": self.pid, "tier": self.tier, "seed": self.seed, "level": self.level,
              "coverage": cov, "assumptions": self.assumptions, "wall_s": round(wall, 2),
              "violations": len(self.violations)}
        # extension checks (X..) serve no listed property: their evidence stays with their run directory
        evdir = EVIDENCE if self.pid.startswith("C") else os.path.join(RUN, self.pid)
        os.makedirs(evdir, exist_ok=True)
        with open(os.path.join(evdir, self.pid + ".json"), "w") as f:
            json.dump(ev, f, indent=1, default=str)
        for key, desc, path in self.violations[:20]:
            print("VIOLATION property=%s replay=%s" % (self.pid, path), flush=True)
        if self.violations:
            return 1
        log("%s: held on everything explored (%.1fs)" % (self.pid, wall))
        return 0


def _load_known(pid):
    p = os.path.join(VERIF, "known_findings.json")
    if not os.path.exists(p):
        return []
    with open(p) as f:
        data = json.load(f)
    return [k for k in data.get("findings", []) if k.get("property") == pid]


def main_wrapper(fn):
    try:
        rc = fn()
    except Broken as b:
        log("BROKEN: %s" % b)
        sys.exit(2)
    sys.exit(rc)
