"""Hand-designed sources with unusual declarations (C03's quantifier), as (name, files, main, arity-list-or-None)."""


def sources():
    S = []

    def add(name, text, arity=None, files=None):
        f = {"m": text}
        if files:
            f.update(files)
        S.append((name, {"files": f, "main": "m"}, arity))
    add("out_is_param", "PROGRAM f IN a, b OUT a DO a := b END\nx := RUN f WITH 1, 2 END", [2])
    add("out_is_last_param", "PROGRAM f IN a, b OUT b DO a := b END\nx := RUN f WITH 1, 2 END", [2])
    add("no_params", "PROGRAM f DO x0 := 5 END\ny := RUN f WITH END", [0])
    add("no_params_no_vars", "PROGRAM f DO STOP END\ny := RUN f WITH END", [0])
    add("no_body_vars_out_param", "PROGRAM f IN a OUT a DO a := a END\ny := RUN f WITH 3 END", [1])
    add("only_default_out", "PROGRAM f IN a DO a := a END\ny := RUN f WITH 3 END", [1])
    add("redef_diff_arity", "PROGRAM f IN a DO x0 := a END\nPROGRAM g IN a DO x0 := RUN f WITH a END END\n"
        "PROGRAM f IN a, b, c OUT c DO c := a; t := b; u := t END\nx := RUN g WITH 1 END; y := RUN f WITH 1, 2, 3 END", [1, 1, 3])
    add("redef_calls_old", "PROGRAM f IN a DO x0 := a + 1 END\nPROGRAM f IN a DO x0 := RUN f WITH a END; x0 := x0 + 1 END\n"
        "PROGRAM f DO x0 := RUN f WITH 4 END END\ny := RUN f WITH END", [1, 1, 0])
    add("redef_smaller_frame", "PROGRAM f IN a, b OUT r DO r := a; s := b; t := s; u := t END\n"
        "PROGRAM g IN a DO x0 := RUN f WITH a, a END END\nPROGRAM f IN a DO x0 := a END\n"
        "x := RUN g WITH 2 END; y := RUN f WITH 7 END", [2, 1, 1])
    add("nested_args", "PROGRAM f IN a, b, c DO x0 := a; x0 := b; x0 := c END\nPROGRAM g IN a DO x0 := a + 1 END\n"
        "x := RUN f WITH RUN g WITH RUN g WITH 1 END END, RUN f WITH 1, 2, 3 END, RUN g WITH 4 END END", [3, 1])
    add("loop_in_callee", "PROGRAM f IN n OUT r DO LOOP n DO LOOP n DO r := r + 1 END END END\nx := 3; LOOP x DO y := RUN f WITH x END END", [1])
    add("if_in_callee", "PROGRAM f IN n OUT r DO IF n = 0 THEN GOTO e; r := 1; e: r := r + 1 END\nx := RUN f WITH 0 END; y := RUN f WITH 1 END", [1])
    add("many_params", "PROGRAM f IN a, b, c, d, e, g OUT g DO g := a END\nx := RUN f WITH 1, 2, 3, 4, 5, 6 END", [6])
    add("call_in_while_cond_body", "PROGRAM d IN a DO x0 := a - 1 END\nx := 3; WHILE x != 0 DO x := RUN d WITH x END END", [1])
    add("stop_in_callee", "PROGRAM f IN a DO STOP; x0 := a END\nx := RUN f WITH 1 END; y := 2", [1])
    add("include_twice", 'include "p" include "q" include "p"\nx := RUN f WITH 1 END; y := RUN g WITH 2 END',
        [1, 1, 1], {"p": "PROGRAM f IN a DO x0 := a END\n", "q": "PROGRAM g IN a DO x0 := RUN f WITH a END END\n"})
    # repeated parameter names: accepted by the pinned front end, rejected since the fix; checked whenever accepted
    add("dup_params_aa", "PROGRAM f IN a, a OUT a DO a := a END\ny := RUN f WITH 1, 2 END", [2])
    add("dup_params_aba", "PROGRAM f IN a, b, a DO x0 := a END\ny := RUN f WITH 1, 2, 3 END", [3])
    add("dup_params_abb", "PROGRAM f IN a, b, b OUT b DO b := a END\ny := RUN f WITH 1, 2, 3 END", [3])
    add("dup_params_aab_out_x0", "PROGRAM f IN a, a, b DO x0 := b END\ny := RUN f WITH 1, 2, 3 END", [3])
    return S
