"""The command line debugger (`theo -d`, CLI/cli.cpp) as a client of TheoVM: TheoCliTrace.tla.

A session is a script of debugger commands fed to the real binary (built by the harness project as theo_cli against the same
library); after every state-changing command the script asks for `l`, `a` and `m`, and what is printed is turned into one
event per command.  TLC validates the session against TheoCliTrace, where every command is a fixed sequence of TheoVM actions.
"""
import json
import os
import random
import re
import subprocess
import tempfile

from common import Broken, BUILD, NCPU, rundir, tlc, tlc_counterexample, REPLAYS
import vm


def make_script(rng, prog, ncmds):
    """[(cmd, file, line)]: weighted towards stepping and breakpoints at real sites, with some that must fail"""
    locs = [(e["file"], e["line"]) for e in prog["pbs"]]
    files = sorted({f for f, _ in locs}) or ["m"]
    out = []
    for _ in range(ncmds):
        q = rng.random()
        if q < 0.30:
            out.append(("s", None, None))
        elif q < 0.42:
            out.append(("e", None, None))
        elif q < 0.50:
            out.append(("r", None, None))
        elif q < 0.55:
            out.append(("c", None, None))
        else:
            cmd = "b" if rng.random() < 0.7 else "d"
            if locs and rng.random() < 0.85:
                f, ln = rng.choice(locs)
            else:
                f, ln = rng.choice(files + ["nofile"]), rng.randint(-1, 40)
            out.append((cmd, f, ln))
    return out


HELD = re.compile(r"program is held on breakpoint '(.*):(-?\d+)'")


def run_session(exe, src, script, workdir):
    """returns list of events or raises Broken / returns ('fail', text)"""
    for name, text in src["files"].items():
        if ">>" in text or "\n" in name:
            return None
    with tempfile.TemporaryDirectory(dir=workdir) as d:
        for name, text in src["files"].items():
            with open(os.path.join(d, name), "w") as f:
                f.write(text)
        names = [src["main"]] + sorted(x for x in src["files"] if x != src["main"])
        lines = []
        for cmd, f, ln in script:
            lines.append(cmd if f is None else "%s %s %d" % (cmd, f, ln))
            lines += ["l", "a", "m"]
        lines.append("q")
        try:
            r = subprocess.run([exe, "-d"] + names, cwd=d, input="\n".join(lines) + "\n", capture_output=True, text=True, timeout=120)
        except subprocess.TimeoutExpired:
            return ("hang", "")
        if r.returncode != 0:
            return ("exit %s" % r.returncode, r.stdout[-400:] + r.stderr[-1500:])
        chunks = r.stdout.split(">>")
        # chunks[0] is the banner, chunks[k + 1] the output of input line k
        if len(chunks) != len(lines) + 1:
            return ("output", "expected %d prompts, saw %d" % (len(lines), len(chunks) - 1))
        evs = []
        for k, (cmd, f, ln) in enumerate(script):
            own, ol, oa, om = chunks[1 + 4 * k: 5 + 4 * k]
            m = HELD.match(ol)
            if not m or not oa.startswith("activated breakpoints:") or not om.startswith("memory:"):
                return ("output", "unexpected output after command %d (%s): %r %r %r" % (k, cmd, ol[:80], oa[:80], om[:80]))
            enabled = []
            for line in oa.splitlines()[1:]:
                if line.startswith("- "):
                    bf, bl = line[2:].rsplit(":", 1)
                    enabled.append([bf, int(bl)])
            hastop = "nothing to print" not in om
            top = []
            if hastop:
                for line in om.splitlines()[1:]:
                    if ": " in line:
                        a, b = line.rsplit(": ", 1)
                        top.append([a, int(b)])
            ev = {"e": "cli", "cmd": cmd, "file": f or "", "line": ln if ln is not None else 0, "ok": "no possible breakpoint" not in own,
                  "cur": [m.group(1), int(m.group(2))], "enabled": enabled, "hastop": hastop, "top": top}
            evs.append(ev)
        return evs


def sessions(chk, sources, progs, per_prog, ncmds, seed, variant="plain"):
    """record sessions from the real binary and validate them; returns number accepted"""
    return validate(chk, record(chk, sources, progs, per_prog, ncmds, seed, variant), progs)


def record(chk, sources, progs, per_prog, ncmds, seed, variant="plain"):
    exe = os.path.join(BUILD, variant, "theo_cli")
    if not os.path.exists(exe):
        raise Broken("theo_cli was not built")
    rng = random.Random(seed)
    work = rundir(chk.pid, "clidbg")
    execs = []
    jobs = [(p, name, src, make_script(rng, progs[p - 1], ncmds)) for p, (name, src) in enumerate(sources, 1) for _ in range(per_prog)]
    from concurrent.futures import ThreadPoolExecutor
    with ThreadPoolExecutor(max_workers=NCPU) as ex:
        results = list(ex.map(lambda j: run_session(exe, j[2], j[3], work), jobs))
    for (p, name, src, script), evs in zip(jobs, results):
        if evs is None:
            continue
        if isinstance(evs, tuple):
            chk.violation("clidbg:%s:%s" % (evs[0], name), "theo -d failed (%s) on program %s with commands %s: %s"
                          % (evs[0], name, [c if f is None else "%s %s %d" % (c, f, l) for c, f, l in script], evs[1]),
                          {"program": src, "script": script})
            continue
        execs.append([{"e": "load", "p": p}] + evs)
    return execs


def validate(chk, execs, progs, name="clidbg"):
    from concurrent.futures import ThreadPoolExecutor
    if not execs:
        return 0
    batches = min(NCPU, max(1, len(execs) // 3))
    groups = [execs[i::batches] for i in range(batches)]
    d = rundir(chk.pid, name + "_in")
    pp = vm.write_progs(d, progs)
    cfg = "SPECIFICATION CSpec\nINVARIANT TypeOK NoStuck BrkSync\nCONSTRAINT Progress\nPOSTCONDITION Accepted\nCHECK_DEADLOCK FALSE\n"

    def one(gi):
        tp = os.path.join(d, "cli%d.ndjson" % gi)
        with open(tp, "w") as f:
            for exn in groups[gi]:
                for ev in exn:
                    f.write(json.dumps(ev, separators=(",", ":")) + "\n")
        env = {"PROGS": pp, "HISTK": "0", "TRACE": tp}
        r = tlc("TheoCliTrace", cfg, chk.pid, "%s%d" % (name, gi), env=env, workers=1, timeout=1200, xmx="4g")
        if r.violated is not None and not r.error and not r.timed_out:
            r2 = tlc("TheoCliTrace", cfg, chk.pid, "%s%d_again" % (name, gi), env=env, workers=1, timeout=1200, xmx="4g")
            if r2.violated != r.violated:
                raise Broken("CLI session verdict not repeatable: %s vs %s" % (r.violated, r2.violated))
        return r, tp
    with ThreadPoolExecutor(max_workers=batches) as ex:
        results = list(ex.map(one, range(len(groups))))
    acc = 0
    for gi, (r, tp) in enumerate(results):
        if r.timed_out or r.error:
            raise Broken("TheoCliTrace: %s" % (r.error or "timeout"))
        chk.add("spec_states_in_validation", r.distinct)
        if r.violated is None:
            acc += len(groups[gi])
            continue
        import shutil
        keep = os.path.join(REPLAYS, chk.pid)
        os.makedirs(keep, exist_ok=True)
        kept = os.path.join(keep, os.path.basename(tp))
        shutil.copy(tp, kept)
        m = re.search(r'"maxl", (\d+), "of", (\d+)', r.out)
        at = int(m.group(1)) if m else -1
        evs = [ev for exn in groups[gi] for ev in exn]
        bad = evs[at - 1] if 0 < at <= len(evs) else None
        if r.violated != "postcondition":
            chk.violation("clidbg:inv:" + r.violated, "TheoCliTrace: invariant %s violated along a recorded theo -d session (%s)\n%s"
                          % (r.violated, kept, tlc_counterexample(r, 2500)), {"trace_file": kept})
        else:
            chk.violation("clidbg:reject:%s" % (bad and bad.get("cmd")), "TheoCliTrace rejected a recorded theo -d session: what the tool printed after "
                          "command %d is not what the command's VM calls produce in the specification: %s" % (at, json.dumps(bad)[:1200]),
                          {"trace_file": kept, "event_index": at, "event": bad})
    return acc
