#!/usr/bin/env python3
"""Regenerates seeded/README.md and benign/README.md from the meta.json / result.json files."""
import json
import os

VERIF = os.path.dirname(os.path.dirname(os.path.abspath(__file__)))


def first_line(notes):
    for l in notes.splitlines():
        l = l.strip().lstrip("#").strip()
        if l:
            return l[:150]
    return ""


def main():
    rows = []
    sd = os.path.join(VERIF, "seeded")
    for n in sorted(os.listdir(sd)):
        mp = os.path.join(sd, n, "meta.json")
        if not os.path.exists(mp):
            continue
        m = json.load(open(mp))
        res = m.get("quick_check_results_with_change_applied", {})
        rows.append("| %s | %s | %s | %s | %s |" % (n, m["breaks_property"], " ".join(m.get("files_touched", [])),
                                                   ", ".join(m.get("detected_by", [])) or ("(not run yet)" if not res else "**missed**"),
                                                   first_line(m.get("notes_excerpt", ""))))
    with open(os.path.join(sd, "README.md"), "w") as f:
        f.write("# Seeded property-breaking changes\n\nEach directory: `patch.diff` (apply with `git -C /repo apply`), the sub-agent's demonstration "
                "(`demo.cpp`, `demo.sh <repo root>`: fails with the change, passes without), `notes.md`, `meta.json` (what was confirmed, which quick "
                "checks report a violation with the change applied; produced by `lib/seed_verify.sh` and `lib/seed_matrix.py`).\n\n"
                "| change | breaks | files | caught by (quick tier) | what it is |\n|---|---|---|---|---|\n" + "\n".join(rows) + "\n")
    rows = []
    bd = os.path.join(VERIF, "benign")
    if os.path.isdir(bd):
        for n in sorted(os.listdir(bd)):
            rp = os.path.join(bd, n, "result.json")
            if not os.path.exists(rp):
                rows.append("| %s | (not run yet) | |" % n)
                continue
            r = json.load(open(rp))
            res = r["quick_check_results_with_change_applied"]
            rows.append("| %s | %s | %s |" % (n + (" (obsolete: written against an earlier tree, see result.json)" if r.get("obsolete") else ""),
                                              ", ".join(sorted(res)), ", ".join(r["false_alarms"]) or "none"))
        with open(os.path.join(bd, "README.md"), "w") as f:
            f.write("# Behaviour-preserving changes (false-alarm tests)\n\nEach directory: `patch.diff`, the sub-agent's `notes.md` (why the change "
                    "preserves behaviour), `result.json` (quick checks run with the change applied; all must exit 0).\n\n"
                    "| change | checks run | false alarms |\n|---|---|---|\n" + "\n".join(rows) + "\n")


main()
