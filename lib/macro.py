"""Macro family (TheoMacro.tla): enumerated streams x macro families, rewriting paths replayed step by step."""
import json
import re

import lexinc
from common import Broken, NCPU, parallel_th, tlc, require_ok, log, tlc_counterexample

K = lexinc.KIND
KINDMAP = {"id": K["ID"], "int": K["INT"], "op": K["NV_ID"], "assign": K["ASSIGN"], "semi": K["PROGSEP"], "comma": K["ARGSEP"],
           "colon": K["LABELDEC"], "run": K["RUN"], "with": K["WITH"], "end": K["END"], "loop": K["LOOP"], "do": K["DO"],
           "stop": K["STOP"], "lparen": K["PAREN_OPEN"], "rparen": K["PAREN_CLOSE"]}
TEXT = {"assign": ":=", "semi": ";", "comma": ",", "colon": ":", "run": "RUN", "with": "WITH", "end": "END", "loop": "LOOP", "do": "DO",
        "stop": "STOP", "lparen": "(", "rparen": ")"}
ALT = {"run": "run", "with": "With", "end": "end", "loop": "loop", "do": "Do", "stop": "stop"}
SLOT = {"ID": "<ID>", "INT": "<INT>", "VALUE": "<V>", "ARGS": "<ARGS>", "P": "<P>"}
MAX_PASSES = 8       # ParseError::MACRO_APPLY_REACHED_MAX_PASSES

# the families of TheoMacro.tla, transcribed for rendering only (what the real engine is given); the oracle is the TLA+ module
def tok(k, t):
    return {"k": k, "t": t}


def ttext(t):
    return t["t"] if t["k"] in ("id", "int", "op") else TEXT[t["k"]]


def _seq(x):
    if isinstance(x, dict):
        return [x[k] for k in sorted(x, key=int)] if x else []
    return list(x or [])


LONGNAME = "library/with/a/very/long/path/name/that/exceeds/sixty/characters/macros.theo"


def render_files(macros, stream_text, layout):
    """source files for a family: layout = lines | files | oneline | longname"""
    defs = render_macros(macros).strip().split("\n")
    if layout == "files":          # every macro in a file of its own, all on line 1 (equal line numbers in different files)
        files = {"lib%d" % i: d + "\n" for i, d in enumerate(defs)}
        files["m"] = " ".join('include "lib%d"' % i for i in range(len(defs))) + "\n" + stream_text + "\n"
        return files
    if layout == "oneline":        # all definitions on one line of one file
        return {"m": " ".join(defs) + "\n" + stream_text + "\n"}
    if layout == "bodyinc":        # the second half of every macro body stands in an included file of its own (include inside DEFINE)
        files = {}
        lines = []
        for k, m in enumerate(macros):
            pat = " ".join(SLOT[p["s"]] if "s" in p else ttext(p["l"]) for p in _seq(m["pat"]))
            body = [("$%d" % b["ins"]) if "ins" in b else ("#%d" % b["tmp"]) if "tmp" in b else ttext(b) for b in _seq(m["body"])]
            if len(body) >= 2:
                h = len(body) // 2
                files["tail%d" % k] = " ".join(body[h:]) + "\n"
                lines.append('DEFINE PRIO %d %s AS %s include "tail%d" END DEFINE' % (m["prio"], pat, " ".join(body[:h]), k))
            else:
                lines.append("DEFINE PRIO %d %s AS %s END DEFINE" % (m["prio"], pat, " ".join(body)))
        files["m"] = "\n".join(lines) + "\n" + stream_text + "\n"
        return files
    if layout == "longname":       # definitions in a file with a long, path-like name
        return {"m": 'include "%s"\n%s\n' % (LONGNAME, stream_text), LONGNAME: "\n".join(defs) + "\n"}
    return {"m": "\n".join(defs) + "\n" + stream_text + "\n"}


def render_macros(macros):
    lines = []
    for m in macros:
        pat = " ".join(SLOT[p["s"]] if "s" in p else ttext(p["l"]) for p in _seq(m["pat"]))
        body = " ".join(("$%d" % b["ins"]) if "ins" in b else ("#%d" % b["tmp"]) if "tmp" in b else ttext(b) for b in _seq(m["body"]))
        lines.append("DEFINE PRIO %d %s AS %s END DEFINE" % (m["prio"], pat, body))
    return "\n".join(lines) + "\n"


def family_macros(chk, fam):
    """ask the specification itself for the family's macro set (one source of truth)"""
    res = tlc("TheoMacro", "SPECIFICATION Spec\nCHECK_DEADLOCK FALSE\nCONSTRAINT ShowFamily\n", chk.pid, "fam_" + fam,
              env={"MACLEN": 0, "MACBUDGET": 1, "MACFAMILY": fam}, workers=1, timeout=300)
    require_ok(res, "TheoMacro family")
    fams = [c for c in res.cases if "macros" in c]
    return _seq(fams[0]["macros"])


def enumerate_paths(chk, fam, maxlen, budget, invariants=("UniquePerLoc", "BestAgree", "PassBound", "GrowthBound")):
    cfg = "SPECIFICATION Spec\nINVARIANT %s\nCHECK_DEADLOCK FALSE\n" % " ".join(invariants)
    res = tlc("TheoMacro", cfg, chk.pid, "enum_%s_%d_%d" % (fam, maxlen, budget), env={"MACLEN": maxlen, "MACBUDGET": budget, "MACFAMILY": fam},
              timeout=2400, xmx="12g")
    if not require_ok(res, "TheoMacro " + fam):
        chk.violation("macro:model:%s:%s" % (fam, res.violated), "TheoMacro (%s): %s violated\n%s" % (fam, res.violated, tlc_counterexample(res, 3000)), {})
    chk.tlc_stats(res)
    cases = [c for c in res.cases if "stream" in c]
    res.cases = None
    return cases


def norm_real(toks):
    return [(t["k"], bytes.fromhex(t["x"]).decode("latin1")) for t in toks if t["k"] != K["T_EOF"]]


def match_stream(real, spec, ren):
    """real: [(kind, text)], spec: [{k,t}]; temporaries up to a consistent bijective renaming (ren: real -> spec, updated)"""
    if len(real) != len(spec):
        return False
    inv = {v: k for k, v in ren.items()}
    for (rk, rt), st in zip(real, spec):
        if rk != KINDMAP[st["k"]]:
            return False
        if st["k"] == "id" and st["t"].startswith("#"):
            if rt in ren:
                if ren[rt] != st["t"]:
                    return False
            else:
                if st["t"] in inv:
                    return False
                ren[rt] = st["t"]
                inv[st["t"]] = rt
        elif st["k"] in ("id", "int", "op"):
            if rt != st["t"] or rt in ren:
                return False
    return True


def replay(chk, th, fam, macros, cases, what, layout="lines"):
    """cases: all rewriting paths of the family; grouped by (budget, initial stream)."""
    groups = {}
    for c in cases:
        key = (c["budget"], json.dumps(_seq(c["stream"])))
        groups.setdefault(key, []).append(c)
    defs = render_macros(macros)
    inputs, keys = [], []
    for i, (key, cs) in enumerate(sorted(groups.items())):
        budget, sj = key
        stream = json.loads(sj)
        if layout == "altcase":     # keywords of the program text in another spelling than the patterns': literal keywords match by kind
            text = " ".join(ttext(t) if t["k"] in ("id", "int", "op") else ALT.get(t["k"], ttext(t)) for t in stream)
            files = render_files(macros, text, "lines")
        else:
            files = render_files(macros, " ".join(ttext(t) for t in stream), layout)
        inputs.append({"i": i, "files": files, "main": "m",
                       "passes": list(range(1, budget + 1)) or [0]})
        keys.append(key)
    n = 0
    temps_seen = set()
    for recs, rc, err, part in parallel_th(th, ["macro"], inputs, timeout=2400):
        got = {r["i"]: r for r in recs if "runs" in r}
        if rc != 0:
            begun = [r["begin"] for r in recs if "begin" in r]
            bad = inputs[begun[-1]] if begun else None
            kind = "timeout" if rc in (-9, 75) else "crash"
            chk.violation("%s:abort:%s" % (what, bad and bad["files"]), "apply_macros did not return (%s, exit %s) on %r: %s"
                          % (kind, rc, bad and bad["files"], err[-1500:]), {"input": bad})
        for j in part:
            r = got.get(j["i"])
            if r is None:
                continue
            budget, sj = keys[j["i"]]
            cs = groups[keys[j["i"]]]
            n += 1
            if r["scanerrs"] or r["xerrs"] or r["ndefs"] != len(macros):
                raise Broken("macro family %s did not extract cleanly: %s" % (fam, r))
            reals = [norm_real(run["toks"]) for run in r["runs"]]
            nonlr = [e for e in r["runs"][-1]["errs"] if e[0] == 7]
            if nonlr:
                raise Broken("a pattern of family %s is reported as non-linear: the family must consist of usable macros" % fam)
            ok_any = None
            reasons = []
            for c in cs:
                steps = [_seq(s) for s in _seq(c["steps"])]
                ren = {}
                good = True
                if budget == 0 and not match_stream(reals[0], json.loads(sj), ren):
                    good = False
                    reasons.append("budget 0: the stream must come back unchanged, apply_macros %s" % " ".join(t for _, t in reals[0]))
                for k in range(1, budget + 1):
                    spec_k = steps[k - 1] if k <= len(steps) else (steps[-1] if steps else json.loads(sj))
                    if not match_stream(reals[k - 1], spec_k, ren):
                        good = False
                        reasons.append("after %d rewriting step(s): specification %s, apply_macros %s"
                                       % (k, " ".join(ttext(t) for t in spec_k), " ".join(t for _, t in reals[k - 1])))
                        break
                if not good:
                    continue
                maxerr = any(e[0] == MAX_PASSES for e in r["runs"][-1]["errs"])
                if (c["err"] == "must" and not maxerr) or (c["err"] == "no" and maxerr):
                    good = False
                    reasons.append("too-many-substitutions error %s although the specification says '%s' (budget %d)"
                                   % ("reported" if maxerr else "missing", c["err"], budget))
                    continue
                ok_any = c
                for real_name in ren:
                    temps_seen.add(real_name)
                    if re.fullmatch(r"[A-Za-z_][A-Za-z0-9_]*", real_name):
                        chk.violation("%s:temp-writable:%s" % (what, real_name), "temporary is spelled %r, which a user can write as an identifier" % real_name,
                                      {"input": j})
                break
            if ok_any is None:
                chk.violation("%s:%s:%d:%s" % (what, fam, budget, sj),
                              "macro family %s, budget %d, stream  %s : no rewriting path of the specification explains apply_macros: %s\nmacros:\n%s"
                              % (fam, budget, " ".join(ttext(t) for t in json.loads(sj)), reasons[0] if reasons else "?", defs),
                              {"family": fam, "source": j["files"], "budget": budget, "reasons": reasons[:3]})
    if inputs:
        k = len(inputs) // 2
        chk.sample({"family": fam, "source": inputs[k]["files"], "budget": keys[k][0],
                    "expected_steps": [" ".join(ttext(t) for t in _seq(s)) for s in _seq(groups[keys[k]][0]["steps"])]})
    chk.add("distinct_temporaries_seen", len(temps_seen))
    return n


def through_compile(chk, th, items, what):
    """items: [(files, main, [(file, line)...])]: the errors apply_macros reported when called directly (TLC-decided verdicts were
    compared on that path).  "Is reported" means reported by the public entry point: Theo::compile on the same files must mark the
    result incorrect and carry an error at each of these locations.  Returns #compared."""
    inputs = [{"i": i, "files": f, "main": m, "watch": 300} for i, (f, m, _) in enumerate(items)]
    n = 0
    for recs, rc, err, part in parallel_th(th, ["compile"], inputs, timeout=1800):
        got = {r["i"]: r for r in recs if "ok" in r}
        if rc != 0:
            begun = [r["begin"] for r in recs if "begin" in r]
            bad = inputs[begun[-1]] if begun else None
            chk.violation("%s:compile-abort:%s" % (what, bad and json.dumps(bad["files"], sort_keys=True)[:200]),
                          "Theo::compile did not return normally (exit %s) on %s: %s" % (rc, bad, err[-1200:]), {"input": bad})
        for j in part:
            r = got.get(j["i"])
            if r is None:
                continue
            n += 1
            locs = items[j["i"]][2]
            have = {(e["file"], e["line"]) for e in r["errors"]}
            missing = [l for l in locs if tuple(l) not in have]
            if missing or (locs and r["ok"]):
                chk.violation("%s:compile:%s" % (what, json.dumps(j["files"], sort_keys=True)[:300]),
                              "apply_macros reports macro errors at %s for these files, but Theo::compile returns ok=%s with errors at %s: the error "
                              "is not reported to the caller" % (locs, r["ok"], sorted(have)), {"input": j, "direct_errors": locs, "compile_result": r})
    return n
