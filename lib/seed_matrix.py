#!/usr/bin/env python3
"""seed_matrix.py [seed-dir-name ...]: run, for every seeded change under /verif/seeded, the quick check of the property it breaks
on a scratch worktree of /repo with the change applied (outputs under a scratch directory), and record the outcome in meta.json."""
import json
import os
import subprocess
import sys

VERIF = os.path.dirname(os.path.dirname(os.path.abspath(__file__)))
WT = "/tmp/mx/repo"
OUT = "/tmp/mx/out"


def sh(*a, **k):
    return subprocess.run(list(a), capture_output=True, text=True, **k)


def main():
    os.makedirs("/tmp/mx", exist_ok=True)
    if not os.path.exists(WT):
        sh("git", "-C", "/repo", "worktree", "add", "--detach", WT, "HEAD")
    else:
        sh("git", "-C", WT, "checkout", "--detach", sh("git", "-C", "/repo", "rev-parse", "HEAD").stdout.strip())
        sh("git", "-C", WT, "checkout", "--", ".")
    names = sys.argv[1:] or sorted(os.listdir(os.path.join(VERIF, "seeded")))
    extra = {"C05_m1": ["C08"], "C07_m2": ["C03"], "C04_m1": ["C20"], "C16_m1": ["C01"], "C14_m2": ["C15"], "C12_m2": ["C13"]}
    env = dict(os.environ, THEO_REPO=WT, VERIF_SCRATCH=OUT, VERIF_TIER="quick")
    for n in names:
        d = os.path.join(VERIF, "seeded", n)
        mp = os.path.join(d, "meta.json")
        if not os.path.exists(mp):
            continue
        meta = json.load(open(mp))
        r = sh("git", "-C", WT, "apply", os.path.join(d, "patch.diff"))
        if r.returncode != 0:
            print(n, "PATCH DOES NOT APPLY", r.stderr[:200])
            continue
        results = {}
        for c in [meta["breaks_property"]] + extra.get(n, []):
            p = sh(os.path.join(VERIF, "check"), c, "--tier", "quick", env=env, cwd=VERIF)
            nv = p.stdout.count("VIOLATION property=")
            results[c] = {"exit": p.returncode, "violation_lines": nv}
            print(n, c, "exit", p.returncode, "violations", nv, flush=True)
        sh("git", "-C", WT, "checkout", "--", ".")
        meta["quick_check_results_with_change_applied"] = results
        meta["detected_by"] = sorted(c for c, v in results.items() if v["exit"] == 1)
        json.dump(meta, open(mp, "w"), indent=1)


main()
