#!/bin/bash
# seed_verify.sh <ID> <k> : confirm a sub-agent's mutant in its scratch worktree /tmp/mut/<ID> and keep it under /verif/seeded/
# confirms: patch applies; project builds; 12 tests pass; demo fails with the patch; demo passes without it.
set -u
ID=$1; K=$2; BASE=${3:-/tmp/mut}; TAG=${4:-m}; W=$BASE/$ID; M=$W/out/m$K; OUT=/verif/seeded/${ID}_$TAG$K
[ -f $M/patch.diff ] || { echo "no patch $M"; exit 2; }
cd $W && git checkout -q -- . && git apply --check $M/patch.diff || { echo "patch does not apply"; exit 2; }
export TMPDIR=$W/_build/tmp; mkdir -p $TMPDIR
git apply $M/patch.diff
files=$(git diff --name-only | tr '\n' ' ')
( cmake -G Ninja -B _build -S . >/dev/null && cmake --build _build 2>&1 | tail -1 ) > $TMPDIR/build.log 2>&1 || { echo "build failed"; git checkout -q -- .; exit 2; }
tests=$(ctest --test-dir _build -j8 2>&1 | grep -E "tests passed|tests failed" | tail -1)
bash $M/demo.sh $W > $TMPDIR/demo_mut.log 2>&1; rc_mut=$?
git checkout -q -- .
cmake --build _build > /dev/null 2>&1
bash $M/demo.sh $W > $TMPDIR/demo_clean.log 2>&1; rc_clean=$?
echo "$ID m$K: files=[$files] tests='$tests' demo_with_mutant_rc=$rc_mut demo_clean_rc=$rc_clean"
if [[ "$tests" == "100% tests passed"* && $rc_mut -ne 0 && $rc_clean -eq 0 ]]; then
  mkdir -p $OUT && cp $M/patch.diff $M/demo.cpp $M/demo.sh $M/notes.md $OUT/ 2>/dev/null
  python3 - "$ID" "$K" "$files" "$tests" "$rc_mut" "$rc_clean" "$OUT" <<'PY'
import json,sys,os
ID,K,files,tests,rm,rc=sys.argv[1:7]
out=sys.argv[7]
notes=open(out+'/notes.md').read() if os.path.exists(out+'/notes.md') else ''
meta={"breaks_property":ID,"files_touched":files.split(),"needs_to_manifest":"see notes.md (written by the sub-agent that produced the change)",
 "confirmed":{"existing_tests":tests,"demo_exit_with_change":int(rm),"demo_exit_without_change":int(rc),
  "how":"lib/seed_verify.sh %s %s in scratch worktree /tmp/mut/%s: git apply patch.diff; cmake --build; ctest; demo.sh; git checkout; demo.sh"%(ID,K,ID)},
 "detected_by":[], "notes_excerpt":notes[:1200]}
json.dump(meta,open(out+'/meta.json','w'),indent=1)
PY
  echo "KEPT $OUT"
else
  echo "REJECTED"; tail -5 $TMPDIR/demo_mut.log $TMPDIR/demo_clean.log
fi
