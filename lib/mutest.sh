#!/bin/bash
# mutest.sh <seeded-dir-name> <check id>... : apply a seeded change to a scratch worktree of /repo (never to /repo itself: background
# runs use it), run the quick checks against it with all outputs redirected to a scratch directory, undo. One line per check.
S=/verif/seeded/$1; shift
WT=/tmp/mt/repo; OUT=/tmp/mt/out
mkdir -p /tmp/mt
[ -d $WT ] || git -C /repo worktree add -q --detach $WT HEAD
git -C $WT checkout -q --detach $(git -C /repo rev-parse HEAD) && git -C $WT checkout -q -- .
git -C $WT apply $S/patch.diff || exit 2
for c in "$@"; do
  out=$(cd /verif && THEO_REPO=$WT VERIF_SCRATCH=$OUT timeout 3000 ./check $c --tier ${TIER:-quick} 2>/tmp/mutest_$c.err); rc=$?
  echo "$(basename $S) $c rc=$rc $(echo "$out" | grep -c VIOLATION) violation lines; $(echo "$out" | grep -m1 VIOLATION)"
done
git -C $WT checkout -q -- .
