#!/bin/bash
# mutest.sh <seeded-dir-name> <check id>... : apply a seeded change to /repo, run the quick checks, undo it. Prints one line per check.
S=/verif/seeded/$1; shift
git -C /repo diff --quiet || { echo "/repo has local changes"; exit 2; }
git -C /repo apply $S/patch.diff || exit 2
for c in "$@"; do
  out=$(cd /verif && timeout 3000 ./check $c --tier ${TIER:-quick} 2>/tmp/mutest_$c.err); rc=$?
  echo "$(basename $S) $c rc=$rc $(echo "$out" | grep -c VIOLATION) violation lines; $(echo "$out" | grep -m1 VIOLATION)"
done
git -C /repo checkout -- .
