"""Parser family (TheoParse.tla, TheoIface.tla): grammar-automaton cases replayed into Theo::compile."""
import json
import os
import random
import re

from common import Broken, NCPU, run_th, parallel_th, rundir, tlc, require_ok, log
import gen

SPELL = {"prog": gen.KW["PROGRAM"], "in": gen.KW["IN"], "out": gen.KW["OUT"], "do": gen.KW["DO"], "end": gen.KW["END"],
         "loop": gen.KW["LOOP"], "while": gen.KW["WHILE"], "goto": gen.KW["GOTO"], "if": gen.KW["IF"], "then": gen.KW["THEN"],
         "stop": gen.KW["STOP"], "run": gen.KW["RUN"], "with": gen.KW["WITH"], "neq0": ["!= 0"], "eq": ["="], "comma": [","],
         "semi": [";"], "colon": [":"], "assign": [":="], "plus": ["+"], "minus": ["-"], "junk": ["*", "(", "%", "\x00"]}
BIG = ["2147483647", "99999999999", "2147483648", "18446744073709551616"]
KIND_OF_WORD = {}
for k, sp in SPELL.items():
    for w in sp:
        KIND_OF_WORD[w] = k


def render(toks, r):
    """token texts of a TheoParse case -> source text"""
    out = []
    for t in toks:
        if t in SPELL:
            out.append(r.choice(SPELL[t]))
        elif t == "big":
            out.append(r.choice(BIG))
        else:
            out.append(t)
        out.append(r.choice([" ", " ", " ", "\n", "  "]))
    return "".join(out)


def _seq(x):
    if isinstance(x, dict):
        return [x[k] for k in sorted(x, key=int)] if x else []
    return list(x or [])


PRELUDE = "PROGRAM f IN p DO x0 := p END\n"


def enumerate_cases(chk, n, mode, chunks="all", name=None, pre=False):
    spec = "Spec" if mode == "tokens" else "CSpec"
    res = tlc("TheoParse", "SPECIFICATION %s\nCONSTRAINT Emit\nCHECK_DEADLOCK FALSE\n" % spec, chk.pid, name or ("enum_%s%d" % (mode, n)),
              env={"PARSEN": n, "PARSECHUNKS": chunks, "PARSECASES": "/dev/null", "PARSEPRE": "1" if pre else "0"}, timeout=2400, xmx="20g")
    require_ok(res, "TheoParse " + mode)
    chk.tlc_stats(res)
    # the constraint is evaluated more than once per state: one case per distinct token list
    cases = list({" ".join(_seq(c["toks"])): c for c in res.cases}.values())
    res.cases = None
    return cases


SHADOW = ["", "x9 := 1", "DEFINE q AS r END DEFINE", "x9 := RUN nope WITH 1 END"]


def replay_verdicts(chk, th, cases, what, seed, variant="plain", shape_sink=None, prelude="", split=False, shadow=0.0):
    """compile every case; verdict must equal the specification's. Returns number compared."""
    r = random.Random(seed)
    usable = [c for c in cases if not c["dup"]]
    chk.add("cases_outside_domain_dropped", len(cases) - len(usable))
    inputs = []
    for i, c in enumerate(usable):
        toks = _seq(c["toks"])
        if split and len(toks) >= 2 and r.random() < 0.6:
            # the same token stream spread over included files (cut at token boundaries)
            k = r.randrange(1, len(toks))
            files = {"m": prelude + 'include "p1" ' + render(toks[k:], r), "p1": render(toks[:k], r)}
            if r.random() < 0.4 and k >= 2:
                j = r.randrange(1, k)
                files["p1"] = render(toks[:j], r) + ' include "p2"'
                files["p2"] = render(toks[j:k], r)
            inputs.append({"i": i, "files": files, "main": "m"})
        else:
            inputs.append({"i": i, "files": {"m": prelude + render(toks, r)}, "main": "m"})
        if shadow and r.random() < shadow:
            # an unrelated supplied file that happens to carry the hidden standard-macro file's name: the source does not include it,
            # so the verdict (and the built-in sugar) must not depend on it
            inputs[-1]["files"]["__standards__"] = r.choice(SHADOW)
    n = 0
    for recs, rc, err, part in parallel_th(th, ["compile"], inputs, chunks=NCPU, timeout=1800):
        got = {x["i"]: x for x in recs if "ok" in x}
        if rc != 0:
            begun = [x["begin"] for x in recs if "begin" in x]
            bad = inputs[begun[-1]] if begun else None
            chk.violation("%s:abort:%s" % (what, bad and bad["files"]), "Theo::compile aborted (%s build, exit %s) on %r: %s"
                          % (variant, rc, bad and bad["files"], err[-1500:]), {"input": bad, "stderr": err[-3000:]})
        for j in part:
            x = got.get(j["i"])
            if x is None:
                continue
            c = usable[j["i"]]
            n += 1
            if shape_sink is not None:
                shape_sink(x)
            exp = bool(c["acc"])
            okshape = x["ok"] == (len(x["errors"]) == 0)
            if x["ok"] != exp or not okshape:
                chk.violation("%s:%s" % (what, " ".join(_seq(c["toks"]))),
                              "compiler %s a source that TheoParse %s: tokens %s (viable=%s); source %r; errors %s"
                              % ("accepts" if x["ok"] else "rejects", "accepts" if exp else "rejects", _seq(c["toks"]), c["alive"],
                                 j["files"], [(e["file"], e["line"]) for e in x["errors"]][:4]),
                              {"tokens": _seq(c["toks"]), "source": j["files"], "expected_accept": exp, "result": x})
    if usable:
        k = len(usable) // 2
        chk.sample({"tokens": _seq(usable[k]["toks"]), "source": inputs[k]["files"]["m"], "expected_accept": bool(usable[k]["acc"])})
    return n


# ---- decider on mutated generated programs --------------------------------------------------------------
TOKEN_RE = re.compile(r'!= 0|:=|[A-Za-z_][A-Za-z0-9_]*|[0-9]+|\S')


def tokenize(text):
    toks = []
    for w in TOKEN_RE.findall(text):
        if w in KIND_OF_WORD:
            toks.append({"k": KIND_OF_WORD[w], "t": KIND_OF_WORD[w]})
        elif re.fullmatch(r"[A-Za-z_][A-Za-z0-9_]*", w):
            toks.append({"k": "id", "t": w})
        elif re.fullmatch(r"0|[1-9][0-9]*", w):
            toks.append({"k": "int", "t": w})
        else:
            toks.append({"k": "junk", "t": "junk"})
    return toks


def untoken(t, r):
    if t["k"] in ("id", "int"):
        return t["t"]
    return r.choice(SPELL[t["k"]])


def mutants(seed, n, per=6):
    """token lists: generated valid single-file sources and their neighbours (1-4 deletions/insertions/replacements/swaps)"""
    r = random.Random(seed)
    out = []
    pool_kinds = [k for k in SPELL if k != "junk"]
    for i in range(n):
        p = gen.gen_canon(seed * 7717 + i, nfiles=0, diverge=0.0)
        toks = tokenize(p["files"]["m"])
        out.append(toks)
        for _ in range(per):
            m = list(toks)
            for _ in range(r.randint(1, 4)):
                q = r.random()
                if not m:
                    break
                pos = r.randrange(len(m))
                if q < 0.3:
                    del m[pos]
                elif q < 0.55:
                    m.insert(pos, _rand_tok(r, toks, pool_kinds))
                elif q < 0.8:
                    m[pos] = _rand_tok(r, toks, pool_kinds)
                elif len(m) > 1:
                    a = r.randrange(len(m) - 1)
                    m[a], m[a + 1] = m[a + 1], m[a]
            out.append(m)
    return out


def _rand_tok(r, toks, kinds):
    q = r.random()
    if q < 0.35:
        return dict(r.choice(toks))
    if q < 0.5:
        return {"k": "int", "t": r.choice(["0", "1", "2147483646", "2147483647", "99999999999"])}
    if q < 0.6:
        return {"k": "junk", "t": "junk"}
    k = r.choice(kinds)
    return {"k": k, "t": k}


def sentence_edits(cases, seed, per_sentence=None):
    """every source at edit distance 1 (one token replaced, inserted or deleted, over the whole token alphabet) from every enumerated
    sentence: a refused token *inside* an otherwise complete program, which the viable-prefix enumeration cannot reach.
    Token dicts for the decider; duplicates removed."""
    r = random.Random(seed)
    alpha = ([{"k": "id", "t": x} for x in ("a", "f", "g")] + [{"k": "int", "t": "1"}, {"k": "int", "t": "2147483647"}] +
             [{"k": k, "t": k} for k in sorted(SPELL)])

    def tok(t):
        if t in ("a", "f", "g"):
            return {"k": "id", "t": t}
        if t == "1":
            return {"k": "int", "t": "1"}
        if t == "big":
            return {"k": "int", "t": "2147483647"}
        return {"k": t, "t": t}
    seen, out = set(), []
    for c in cases:
        if not c["acc"] or c["dup"]:
            continue
        toks = [tok(t) for t in _seq(c["toks"])]
        eds = []
        for i in range(len(toks) + 1):
            for a in alpha:
                eds.append(toks[:i] + [a] + toks[i:])
                if i < len(toks):
                    eds.append(toks[:i] + [a] + toks[i + 1:])
            if i < len(toks):
                eds.append(toks[:i] + toks[i + 1:])
        if per_sentence and len(eds) > per_sentence:
            eds = r.sample(eds, per_sentence)
        for e in eds:
            key = " ".join(t["k"] + ":" + t["t"] for t in e)
            if key not in seen and e:
                seen.add(key)
                out.append(e)
    return out


def decide(chk, lists, name="decide"):
    d = rundir(chk.pid, name + "_in")
    cp = os.path.join(d, "cases.json")
    with open(cp, "w") as f:
        json.dump(lists, f)
    res = tlc("TheoParse", "SPECIFICATION DSpec\nCONSTRAINT DEmit\nCHECK_DEADLOCK FALSE\n", chk.pid, name,
              env={"PARSEN": 0, "PARSECHUNKS": "all", "PARSECASES": cp, "PARSEPRE": "0"}, timeout=2400, xmx="16g")
    require_ok(res, "TheoParse decider")
    chk.tlc_stats(res)
    verdict = {}
    for c in res.cases:
        verdict[c["i"]] = c
    return verdict


def replay_decided(chk, th, lists, verdict, what, seed):
    r = random.Random(seed)
    inputs, idx = [], []
    for i, toks in enumerate(lists, 1):
        v = verdict.get(i)
        if v is None or v["dup"]:
            continue
        inputs.append({"i": len(idx), "files": {"m": " ".join(untoken(t, r) for t in toks) + "\n"}, "main": "m"})
        idx.append(i)
    chk.add("cases_outside_domain_dropped", len(lists) - len(idx))
    n = 0
    for recs, rc, err, part in parallel_th(th, ["compile"], inputs, timeout=1800):
        got = {x["i"]: x for x in recs if "ok" in x}
        if rc != 0:
            begun = [x["begin"] for x in recs if "begin" in x]
            bad = inputs[begun[-1]] if begun else None
            chk.violation("%s:abort" % what, "Theo::compile aborted on %r: %s" % (bad and bad["files"], err[-1500:]), {"input": bad})
        for j in part:
            x = got.get(j["i"])
            if x is None:
                continue
            v = verdict[idx[j["i"]]]
            n += 1
            if x["ok"] != bool(v["acc"]) or x["ok"] != (len(x["errors"]) == 0):
                chk.violation("%s:%s" % (what, j["files"]["m"][:200]),
                              "compiler %s a mutated source that TheoParse %s: %r; errors %s"
                              % ("accepts" if x["ok"] else "rejects", "accepts" if v["acc"] else "rejects", j["files"]["m"],
                                 [(e["file"], e["line"]) for e in x["errors"]][:4]), {"source": j["files"]["m"], "expected_accept": bool(v["acc"])})
    return n
