#!/bin/bash
# harvest3.sh <F_area> <k> <Cxx> : confirm a round-3 mutant (sub-agents worked by code area; the property is named in its notes) and file it as seeded/<Cxx>_r3<area><k>
A=$1; K=$2; P=$3
bash /verif/lib/seed_verify.sh $A $K /tmp/mut3 r3m | tail -3
S=/verif/seeded/${A}_r3m$K
[ -d $S ] || exit 1
short=$(echo $A | sed 's/^F_//; s/_//g')
D=/verif/seeded/${P}_r3${short}$K
rm -rf $D; mv $S $D
python3 - $D $P $A <<'PY'
import json,sys
d,p,a=sys.argv[1:4]
m=json.load(open(d+'/meta.json'))
m['breaks_property']=p
m['confirmed']['how']=m['confirmed']['how'].replace('/tmp/mut/','/tmp/mut3/')
m['round']=3; m['area']=a
json.dump(m,open(d+'/meta.json','w'),indent=1)
PY
echo "FILED $D"
