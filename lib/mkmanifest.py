#!/usr/bin/env python3
"""Regenerates /verif/MANIFEST.json from the table below (single place to keep it consistent)."""
import json
import os
import subprocess

HERE = os.path.dirname(os.path.dirname(os.path.abspath(__file__)))

TRUST = "TLC 1.8 + CommunityModules (Json, IOUtils); g++ 12 and its sanitizer runtimes; the harness th (harness/*.cpp) reports what the real code did; bounds as printed in the evidence file"

CHECKS = {
    "C05": dict(level="model_checking", ref="5 (C05), 4.1",
                technique="TLC model checking of TheoVM.tla (complete debugger state graph, ghost reference machine) + S->I replay of all bounded histories + I->S trace validation (TheoVMTrace.tla: random histories with copies and moves of the machine, exhaustive walks; TheoCliTrace.tla: sessions of the command line debugger)",
                text="Transparent and BrkSync are TLC invariants on the complete state graph (all histories of any length) of the real compiler's bytecode for the corpus programs; every API history of length 3 (thorough 4) is replayed into the real VM with ip, break opcodes, data and variable views compared after every call; seeded random histories of the real VM are validated event by event against the specification."),
    "C06": dict(level="model_checking", ref="5 (C06), 4.1",
                technique="TLC model checking of TheoVM.tla (StopExact over the site table, enable/disable algebra) + S->I replay of all bounded histories + I->S trace validation",
                text="StopExact, StartNone and BrkSync are TLC invariants on the complete debugger state graph of the real bytecode; every history of length 3 (thorough 4) - including enable requests for an unavailable location - is replayed into the real VM comparing return values, current location, done flag, enabled set and ip after every call; random real histories are validated against the specification with those fields bound."),
    "C17": dict(level="model_checking", ref="5 (C17), 4.1",
                technique="TLC model checking of TheoVM.tla (action properties ResetIsInit, DoneAbsorbing) + S->I replay + I->S trace validation with reset-heavy histories",
                text="ResetIsInit (reset's post-state equals the initial state, including every break opcode, and the ghost reference machine restarts) and DoneAbsorbing are TLC action properties on the complete state graph; S->I replays every bounded history with all observable fields compared (so behaviour after a reset is compared with the specification's fresh machine); reset-heavy random histories of the real VM are validated with all fields bound."),
    "C19": dict(level="model_checking", ref="5 (C19), 4.1",
                technique="inductive invariant of TheoFrames.tla discharged by Apalache (FramesExact, unbounded frame sizes) + TLC model checking of TheoVM.tla (FramesExact, refinement FramesRefine of TheoFrames) + S->I replay + I->S trace validation with frame geometry bound through the THEO_VERIF hooks",
                text="FramesExact (data = exactly the live frames, contiguous, in call order) is a TLC invariant on the complete state graph, i.e. at every instruction boundary of every history; the real VM's word count and every activation's base/size are compared after every call in S->I and bound in I->S traces."),
    "C01": dict(level="translation_validation", ref="5 (C01), 4.3",
                technique="trace validation of real compile-and-run executions against the TLA+ reference semantics TheoSem.tla (TLC, TheoSemTrace.tla), seeded program generator",
                text="Per generated program the real compiler's bytecode is run on the real VM and TLC must explain the end of the run with TheoSem on the generator's core AST: the reference run ends exactly when the VM does (HALT/STOP) and every user variable of every live activation has the reference value; for divergent programs neither side may finish within proportional budgets. The same program is run a second time uninterrupted (execute() on a fresh VM, no stepping mode) and a sample through the repository's command line tool (bin/theo, built by the harness project); both end states are further events the reference run must explain. A third of the programs also go through the model leg TheoRefine (ideal machine of TheoVMCore on the real bytecode, no real VM). Free layouts with user macros, includes at token boundaries, keyword spellings, nested calls, jumps into/out of loops are generated."),
    "C07": dict(level="translation_validation", ref="5 (C07), 4.3",
                technique="trace validation of complete real stepping runs against TheoSem.tla line events (TLC, TheoSemTrace.tla)",
                text="For generated one-statement-per-line sources (several files, sugar, calls, loops, jumps) every stop of the real stepping run is an event that TLC must explain as TheoSem's current line event (file and line) with the reference value of every user variable of every live activation; a missing, extra or misplaced stop or a wrong value anywhere in the run rejects the trace."),
    "C03": dict(level="model_checking", ref="5 (C03), 4.2",
                technique="TLC model checking of TheoVMAbs.tla on the real compiler output (static predicate StaticOK + complete graph of control paths with data abstracted) + I->S validation of instruction-level runs of the ASan/UBSan build against TheoVM's guarded actions",
                text="For every accepted source of a corpus of hand-designed unusual declarations (OUT equal to a parameter, no parameters, no body variables, redefinitions with other arities and frame sizes, repeated parameter names whenever the front end accepts them) and of generated programs, TLC evaluates StaticOK over the instruction array and AbsSafe/AbsDepth in every state of the abstract machine that takes both branches of every conditional jump, i.e. on every control path. A sample is run instruction by instruction on the sanitizer build and every step must be explainable by a guarded TheoVM action (NoStuck)."),
    "C16": dict(level="model_checking", ref="5 (C16), 4.3",
                technique="TLC model checking of TheoSem.tla under weak fairness (<>Done, LoopCount, DepthBound, CallsGoDown) on generated WHILE/GOTO-free ASTs + trace validation of the real runs of the same sources; depth bound on every real run",
                text="Accept side: TheoSem's termination, loop-count and depth invariants are model-checked on the ASTs of generated LOOP-only sources (bodies assign to their bounds, nested loops sharing lines, loops from macro bodies); the real compiler+VM must then produce exactly the reference line events and halt (TheoSemTrace), and the activation depth of every real run is bounded by definitions+1. Reject side: TheoParse's reference skeletons (definitions of f and g with calls of several arities in bodies and in the main part, redefinitions) to depth 8 (thorough 9), spread over included files, are compiled for real and the verdict must equal the specification's (a call is accepted only if its target's definition is complete earlier)."),
    "C08": dict(level="model_checking", ref="5 (C08), 4.1",
                technique="TLC evaluation of TablesOK / LocsRealInv (TheoVM.tla, TheoVMAbs.tla) on the real tables of adversarial and generated layouts + I->S validation of debugger histories (StopExact, BrkSync)",
                text="For every accepted source of a layout corpus (hand-designed patterns: headers re-entering a line that owns a site, END supplied by an included file, several headers on one line, macro bodies in other files, labels alone on a line; generated free/dense/sparse layouts with includes at token boundaries) TLC evaluates on the tables the real compiler emitted: the two tables are exact inverses, listed sites are exactly the break instructions, no location in the hidden file, every location is a line carrying program text. Debugger histories on a sample are validated with StopExact and BrkSync, which ties 'can be enabled' to 'stepping can report it'."),
    "C20": dict(level="model_checking", ref="5 (C20), 4.1",
                technique="I->S trace validation of boundary programs run instruction by instruction on the UBSan/ASan build (TheoVMTrace.tla with overflow values bound, WordsInRange) + S->I replay of TheoWord.tla literal-range cases into the compiler",
                text="Boundary programs (largest literal, x+c with c up to 2^31-2, sums through calls and loops, counters at zero) are executed one instruction at a time on the sanitizer build; each event binds every word of every frame: in-range additions must be exact, an overflowing addition may store any value in 0..2^31-1 but the same one for the same operands, subtraction truncates at 0, WordsInRange holds in every state and a UBSan report is an abort with no explaining action. The literal rule (digit-string order, any length) is enumerated by TLC over 16 literals x 11 positions (assignments, IF comparands, call arguments, +/- sugar, macro INT slots and bodies, priorities, insertion indices) and replayed into the real compiler (verdict and presence of a range error)."),
    "C14": dict(level="model_checking", ref="5 (C14), 4.5",
                technique="TLC enumeration with TheoLex.tla (maximal-munch tokeniser over the frozen vocabulary) and TheoInclude.tla, S->I replay into two scanner builds (committed lex.yy.c and one regenerated from lexer.l)",
                text="TheoLex enumerates every string of <= 3 characters over 41 significant characters (thorough: also <= 4 over 22) and all pairs of ~350 fragments (every keyword spelling, its near misses, multi-word tokens with one/two blanks or a newline, sigils, quoted names, comments) and computes the expected kinds, texts and end lines; TheoInclude enumerates well-formed include layouts over 3 files. Every case is scanned by the build using the shipped lex.yy.c and by the build whose scanner is regenerated from lexer.l; tokens, file labels, lines and the single trailing EOF must equal the specification on both."),
    "C15": dict(level="model_checking", ref="5 (C15), 4.5",
                technique="TLC model checking of TheoInclude.tla (termination under weak fairness, DepthOK, ReqsOK, bound on the token stream) with exhaustive enumeration of include graphs under four namings, S->I replay into Theo::scan / Theo::compile and into a harness variant built with a 5-token stream bound",
                text="TheoInclude mirrors the scanner's include stack, one action per branch; TLC checks termination, stack-depth and request invariants and enumerates all ~500k configurations of 3 files with up to 2 items each (token, include of each file or of an absent name, include without a name, bare include at end of file) times every choice of main including an absent one, plus random graphs over 4-7 files. Each is rendered and scanned for real: tokens with files and lines, errors by type, file and line and the request set must agree; Theo::compile's file_requests are compared on a sample."),
    "C04": dict(level="model_checking", ref="5 (C04), 4.8",
                technique="TLC enumeration of the TheoParse.tla push-down automaton (LL(1) grammar + static rules + sugar): viable prefixes, sentences, refused extensions, every source one token edit away from a sentence, chunk-level skeletons, decider on mutated programs; S->I verdict equality in both directions",
                text="TheoParse is the accept/reject oracle. TLC's BFS over its Feed action yields every viable prefix of <= 8 (thorough 10) tokens, every sentence and every refused one-token extension, the same after a prelude that defines a program (so that complete calls and their near misses are in reach), chunk-level skeletons (definitions x calls x arities x labels x literals incl. out-of-range ones) and reference skeletons; 1-4 token mutations of generated programs are decided by the automaton in decider mode. Every case is compiled by the real compiler and the verdict must be equal: sentences obeying the static rules must compile, everything else must be marked incorrect with at least one error."),
    "C02": dict(level="exploration", ref="5 (C02), 4.9",
                technique="grammar-automaton-generated and mutated inputs compiled on the ASan/UBSan build; result shapes validated by TLC against TheoIface.tla (ResultOK); abort/timeout events have no explaining action",
                text="About 2*10^5 inputs per quick run: every state of the TheoParse automaton within the bounds (sentences, viable prefixes cut off by end of file, refused extensions also followed by a valid continuation), hand-written truncations (argument list ending in a comma, header without ports, DEFINE cut off at every position, stray template/insertion tokens, numbers of any length, empty and absent files), random byte strings and word soups, 1-4 token mutations of generated programs with macros and includes. Each compilation runs on the sanitizer build (1 GB stack, LeakSanitizer at exit, per-batch timeout); one event per compilation is validated by TLC against ResultOK (correct <=> no errors; every error has a message and a location inside a supplied file, the hidden macro file or the '-' placeholder)."),
    "C09": dict(level="model_checking", ref="5 (C09), 4.6",
                technique="TLC enumeration with TheoMacro.tla (declarative match relation, Best = priority > leftmost > longest, all rewriting paths) + S->I replay of every path step by step through apply_macros(budget k); end-to-end trace validation of macro-heavy programs against TheoSem",
                text="For 8 fixed macro families TLC enumerates all streams of <= 4-5 (thorough 6) tokens over the family's vocabulary and every rewriting path, checking UniquePerLoc and BestAgree in the model; the real engine is run on scan -> extract_macros -> apply_macros with budgets 1..k and its k-th stream must equal the k-th specification stream on some path (kinds and texts, temporaries up to a bijective renaming), the final error set must agree. Macro-heavy generated programs are additionally validated end to end against the reference semantics."),
    "C10": dict(level="model_checking", ref="5 (C10), 4.6",
                technique="TLC enumeration with TheoMacro.tla (temporaries named by (n, macro, pass)) + S->I replay requiring a bijection real spelling <-> specification name on every path, in four source layouts; end-to-end validation of nested macro uses against TheoSem",
                text="Families with temporaries (a macro used inside its own <P> slot and twice in a sequence; two macros of equal priority with the same temporary numbers) are enumerated over all streams of <= 5 (thorough 6) tokens; every rewriting path is replayed with budgets 1..4 in four layouts (definition per line, one file per macro with equal line numbers, all definitions on one line, 77-character file name). The map from real spellings to specification names must be a bijection on every path - equal n in one step the same name, different steps different names - and no spelling may be a legal identifier. Nested IF-THEN-ELSE/REPEAT uses in generated programs are validated end to end."),
    "C11": dict(level="model_checking", ref="5 (C11), 4.6",
                technique="TLC model checking of TheoMacro.tla with budgets 1..6 (PassBound, GrowthBound) on divergent and finite macro families + S->I replay of the k-series and of the too-many-substitutions rule; compile() on divergent sets; budget 1024",
                text="Self-reproducing, growing, mutually recursive, finite and ordinary families x budgets 1..6 (thorough 1..8) x all streams of <= 3 (thorough 5) tokens: in the model never more than `budget` steps and growth <= budget x body length; the real k-series must follow a specification path, the error must be present when a match remains at the end of the budget, absent when rewriting ended early, optional when exactly the budget was needed. Divergent macro sets through compile() must come back marked incorrect; apply_macros with budget 1024 on the growing family must return within the bound."),
    "C12": dict(level="model_checking", ref="5 (C12), 4.7",
                technique="TLC enumeration of canonical LR(1) prefix-mode conflict verdicts (TheoPattern.tla) for all macro patterns up to length 3-4 (thorough: 4 complete, 5 sampled) + S->I replay into the real macro engine",
                text="Every pattern of <= 3 symbols and half (thorough: all) of the patterns of length 4 over the five slot kinds and six literal kinds gets its verdict from the canonical LR(1) collection of slot grammar + MACRO -> pattern in prefix mode. Each pattern is defined in an included file between two unrelated usable macros and used once: the non-linear error must be reported at the file and line of the pattern's first token iff there is a conflict; a rejected macro's use stays unrewritten; the unrelated macros defined before and after it are applied in both cases; an accepted pattern's use is rewritten."),
    "C13": dict(level="model_checking", ref="5 (C13), 4.7",
                technique="TLC model checking of TheoLR1.tla (in-model theorem: canonical LR(1) driver <=> bounded derivability, unique tree, ambiguity => conflict, FIRST) over all small grammars + S->I replay into the real LRParser template on the ASan/UBSan build",
                text="All 10822 grammars over S, A / a, b with <= 3 rules (thorough 4) and right-hand sides <= 2, plus ~5400 chain grammars over four non-terminals (unit and epsilon rules), each with all inputs of <= 4 (3) terminals in full and prefix mode: TLC proves the theorem inside the model for every grammar, then the real generator and parser are compared: no conflict reported => the parser accepts exactly the (prefix) language given by the declarative Lang and returns the fold of the unique tree (children last symbol first); ambiguous => a conflict is reported; Grammar::first_sets equal the textbook fixpoint. Conflicts reported where canonical LR(1) has none are counted, not violations."),
    "C18": dict(level="exploration", ref="5 (C18), 4.9",
                technique="I->S validation of merged multi-threaded logs (ThreadSanitizer build) against TheoSys.tla (constant CompileFn, program order, instance ownership) and of every VM instance's log against TheoVMTrace.tla; shuffled sequential orders",
                text="CompileFn[input] is recorded by a fresh single-threaded process per pool input; the pool (generated programs with macros, includes and loops, erroneous inputs, near-duplicates that move a macro definition) is then compiled in shuffled orders inside one process, and by 2-8 threads of the ThreadSanitizer build that also drive private VM instances with random debugger histories. TLC validates the merged log against TheoSys (every compile event returns CompileFn[input], per-thread program order, each instance owned by one thread) and every instance's log against TheoVMTrace with all fields bound; a ThreadSanitizer report or crash is an abort event without explanation."),
}

NOT_YET = "check not built yet in this session (construction order in DESIGN.md section 10); will be claimed when its check exists"


def main():
    props = [json.loads(l) for l in open(os.path.join(HERE, "properties.jsonl"))]
    hooks_commits = subprocess.run(["git", "-C", "/repo", "log", "--format=%H", "--grep=THEO_VERIF"], capture_output=True, text=True).stdout.split()
    man = {
        "version": 1,
        "setup_cmd": "python3 lib/setup.py && python3 lib/selftest.py",
        "hooks": {
            "guard": "THEO_VERIF",
            "enable": "harness/CMakeLists.txt compiles /repo's sources with -DTHEO_VERIF (read-only accessors at the end of class Theo::VM in VM/include/vm.hpp; the macro pass counter Theo::verif_macro_passes in Compiler/include/parse.hpp and Compiler/src/macro.cpp, read by the harness watchdog)",
            "baseline_off_cmd": "cmake -G Ninja -B /repo/_build -S /repo && cmake --build /repo/_build && ctest --test-dir /repo/_build -j8 --timeout 900",
            "source_commits": hooks_commits,
            "add_only": True,
        },
        "engines": [
            {"name": "tlc", "path": "/opt/veriftools/tla/tla2tools.jar", "serves_properties": sorted(CHECKS),
             "kind_free_text": "explicit-state model checker for the TLA+ specifications under /verif/spec"},
            {"name": "apalache", "path": "/opt/veriftools/apalache", "serves_properties": ["C19"],
             "kind_free_text": "symbolic model checker: inductive-invariant steps of TheoFrames.tla (FramesExact for unbounded frame sizes)"},
            {"name": "th", "path": "/verif/harness", "serves_properties": sorted(CHECKS),
             "kind_free_text": "C++ conformance harness built from /repo's working tree (plain, asan, tsan, flexgen variants)"},
        ],
        "checks": [],
        "not_applicable": [],
        "notes": "All checks: ./check <ID> (quick) / ./check <ID> --tier thorough. Exit 2 = checker broken (never a verdict). See DESIGN.md.",
    }
    for p in props:
        pid = p["id"]
        if pid in CHECKS:
            c = CHECKS[pid]
            man["checks"].append({
                "property_id": pid,
                "quick_cmd": "./check %s --tier quick" % pid,
                "thorough_cmd": "./check %s --tier thorough" % pid,
                "evidence_file": "evidence/%s.json" % pid,
                "replay_cmd_template": "./check %s --replay {path}" % pid,
                "engine": "tlc",
                "level_claimed": {"category": c["level"], "text": c["text"], "design_ref": "DESIGN.md section " + c["ref"]},
                "level_note": c.get("note", TRUST),
                "technique": c["technique"],
            })
        else:
            man["not_applicable"].append({"property_id": pid, "reason": NOT_YET})
    with open(os.path.join(HERE, "MANIFEST.json"), "w") as f:
        json.dump(man, f, indent=1)
    try:
        import jsonschema
        jsonschema.validate(man, json.load(open("/root/.vp/MANIFEST.schema.json")))
        print("MANIFEST.json valid:", len(man["checks"]), "checks,", len(man["not_applicable"]), "not claimed")
    except ImportError:
        print("MANIFEST.json written (jsonschema not available for validation)")


if __name__ == "__main__":
    main()
