// macro: scan -> extract_macros -> apply_macros(passes) per input line (C09-C12).
// input : {"i":n,"files":{..},"main":"m","passes":[k1,k2,..]}   (one application per budget: the k-th intermediate stream is an API observable)
// output: {"i":n,"scanerrs":m,"xerrs":[[type,file,line]..],"ndefs":d,"runs":[{"passes":k,"toks":[[kind,hex,file,line]..],"errs":[[type,file,line]..]}]}
#include "common.hpp"
using namespace Theo;
static int cmd_macro(int, char**) {
  std::string line;
  while (std::getline(std::cin, line)) {
    if (line.empty()) continue;
    json in = json::parse(line);
    th::emit({{"begin", in["i"]}});
    auto files = th::files_of(in);
    th::watch(in["i"].is_number() ? in["i"].get<long>() : -1, in.value("watch", 240));
    ScanResult sr = scan(files, in.value("main", "m"));
    MacroExtractionResult mer = extract_macros(sr.toks);
    json out; out["i"] = in["i"]; out["scanerrs"] = (int)sr.errors.size(); out["ndefs"] = (int)mer.macros.size();
    json xe = json::array();
    for (auto& e : mer.errors) xe.push_back(json::array({(int)e.t, e.file, e.line}));
    out["xerrs"] = xe;
    json prios = json::array();
    for (auto& m : mer.macros) prios.push_back(m.priority);
    out["prios"] = prios;
    if (in.value("extract", false)) {
      // the extraction result in full (TheoExtract.tla)
      out["xtoks"] = th::tokens_json(mer.tokens);
      json defs = json::array();
      for (auto& m : mer.macros)
        defs.push_back({{"prio", m.priority}, {"rule", th::tokens_json(m.rule)}, {"repl", th::tokens_json(m.replacement)},
                        {"tmpl", m.template_token_indices}, {"cc", m.content_constraint_token_indices}});
      out["defs"] = defs;
    }
    json runs = json::array();
    for (auto& k : in["passes"]) {
      // the same definition vector for every application: apply_macros takes it by reference and must leave it usable
      MacroApplicationResult mar = apply_macros(mer.tokens, mer.macros, k.get<unsigned>());
      json errs = json::array();
      for (auto& e : mar.errors) errs.push_back(json::array({(int)e.t, e.file, e.line}));
      runs.push_back({{"passes", k}, {"toks", th::tokens_json(mar.transformed_sequence)}, {"errs", errs}});
    }
    out["runs"] = runs;
    th::unwatch();
    th::emit(out);
  }
  return 0;
}
static th::Reg r("macro", cmd_macro);
