// scan: Theo::scan per input line (C14, C15). Output: tokens [kind, hex text, file, line], errors [type, file, line, request].
#include "common.hpp"
using namespace Theo;
static int cmd_scan(int, char**) {
  std::string line; long idx = 0;
  while (std::getline(std::cin, line)) {
    if (line.empty()) continue;
    json in = json::parse(line);
    auto files = th::files_of(in);
    std::string mainf = in.value("main", "m");
    json out; out["i"] = in.contains("i") ? in["i"] : json(idx);
    idx++;
    th::emit({{"begin", out["i"]}});
    th::watch(out["i"].is_number() ? out["i"].get<long>() : -1, 30);
    ScanResult sr = scan(files, mainf);
    th::unwatch();
    json toks = json::array();
    for (auto& t : sr.toks) toks.push_back(json::array({(int)t.t, th::tohex(t.text), t.file, t.line}));
    json errs = json::array();
    for (auto& e : sr.errors) errs.push_back(json::array({(int)e.t, e.file, e.line, e.file_request, (int)e.msg.size()}));
    out["toks"] = toks; out["errors"] = errs;
    th::emit(out);
  }
  return 0;
}
static th::Reg r("scan", cmd_scan);
