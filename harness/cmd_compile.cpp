// compile: one Theo::compile per input line; reports the result shape (C02/C04/C15/C16/C20) and optionally the program
#include "common.hpp"
using namespace Theo;
static int cmd_compile(int argc, char** argv) {
  bool want_prog = false, want_msg = false, want_digest = false;
  for (int i = 1; i < argc; i++) { std::string a = argv[i]; if (a == "--prog") want_prog = true; if (a == "--msg") want_msg = true; if (a == "--digest") want_digest = true; }
  std::string line; long idx = 0;
  while (std::getline(std::cin, line)) {
    if (line.empty()) continue;
    json in = json::parse(line);
    auto files = th::files_of(in);
    std::string mainf = in.value("main", "m");
    json out; out["i"] = in.contains("i") ? in["i"] : json(idx);
    idx++;
    // announce before running so that a crash or hang names its input
    th::emit({{"begin", out["i"]}});
    CodegenResult cr;
    th::watch(out["i"].is_number() ? out["i"].get<long>() : -1, in.value("watch", 120), in.value("ext", 2));
    // "stack_mb": run this compilation on a thread with an ordinary stack (the default thread stack of the platform is 8 MB) instead of
    // the harness's 1 GB one: recursion that is linear in the length of a flat source is a crash there
    if (in.contains("stack_mb")) th::run_on_big_stack([&]() { cr = compile(files, mainf); }, (size_t)in["stack_mb"].get<int>() << 20);
    else th::run_big_stack([&]() { cr = compile(files, mainf); });
    th::unwatch();
    out["ok"] = cr.generated_correctly;
    json errs = json::array();
    for (auto& e : cr.errors) {
      json je = {{"t", (int)e.t}, {"file", e.file}, {"line", e.line}, {"msglen", (int)e.message.size()}};
      if (want_msg) je["msg"] = e.message;
      // classification of the message the properties talk about
      je["range"] = e.message.find("out of range") != std::string::npos;
      errs.push_back(je);
    }
    out["errors"] = errs;
    out["requests"] = cr.file_requests;
    json fl = json::array();
    for (auto& f : files) fl.push_back({{"name", f.first}, {"lines", th::count_lines(f.second)}});
    out["files"] = fl;
    out["main"] = mainf;
    if (want_prog && cr.generated_correctly) {
      // listing the program is an observation: on every other input the tables are dumped after Program::disassemble has run
      if (idx % 2 == 0) { std::ostringstream sink; cr.code.disassemble(sink); out["listed"] = (long)sink.str().size(); }
      out["prog"] = th::dump_program(cr.code);
    }
    if (want_digest) out["digest"] = th::digest_of(cr);
    th::emit(out);
  }
  return 0;
}
static th::Reg r("compile", cmd_compile);
