// Shared helpers of the /verif harness ("th"): JSON in/out, program dump, big-stack runner.
#pragma once
#include <pthread.h>
#include <signal.h>
#include <unistd.h>

#include <cstdio>
#include <functional>
#include <iostream>
#include <map>
#include <nlohmann/json.hpp>
#include <sstream>
#include <string>
#include <vector>

#include "Compiler/include/compiler.hpp"
#include "Compiler/include/macro.hpp"
#include "Compiler/include/parse.hpp"
#include "Compiler/include/scan.hpp"
#include "VM/include/vm.hpp"

using json = nlohmann::json;

namespace th {

inline const char* opname(Theo::OpCode op) {
  static const char* n[] = {"PB",   "BRK", "HALT", "ADD", "JMP",   "JMPC",
                            "PREP", "ARG", "EXEC", "RET", "CONST", "TEST"};
  int i = (int)op;
  return (i >= 0 && i < 12) ? n[i] : "BAD";
}

inline void operands(const Theo::Instruction& I, int& a, int& b, int& c) {
  using Theo::OpCode;
  a = b = c = 0;
  switch (I.op) {
    case OpCode::ADD_CONST: a = I.parameters.add.target; b = I.parameters.add.source; c = I.parameters.add.constant; break;
    case OpCode::TEST: a = I.parameters.test.target; b = I.parameters.test.op1; c = I.parameters.test.op2; break;
    case OpCode::CONST: a = I.parameters.constant.target; b = I.parameters.constant.constant; break;
    case OpCode::JMP: a = I.parameters.jmp.offset; break;
    case OpCode::JMPC: a = I.parameters.jmpc.offset; b = I.parameters.jmpc.source; break;
    case OpCode::PREPARE_EXEC: a = I.parameters.prepare.count; b = I.parameters.prepare.index; c = I.parameters.prepare.target; break;
    case OpCode::ARG: a = I.parameters.arg.target; b = I.parameters.arg.source; break;
    case OpCode::EXEC: a = I.parameters.exec.entry; break;
    case OpCode::RET: a = I.parameters.ret.source; break;
    default: break;
  }
}

inline json dump_program(const Theo::Program& p) {
  json code = json::array();
  for (auto& I : p.code) {
    int a, b, c;
    operands(I, a, b, c);
    code.push_back({{"op", opname(I.op)}, {"a", a}, {"b", b}, {"c", c}});
  }
  json maps = json::array();
  for (auto& m : p.stack_maps) {
    json regs = json::array();
    for (auto& e : m.map) regs.push_back({{"r", e.first}, {"name", e.second}});
    maps.push_back({{"name", m.func_name}, {"regs", regs}});
  }
  json pbs = json::array();
  for (auto& e : p.potential_breaks) {
    json idx = json::array();
    for (auto i : e.second) idx.push_back(i);
    pbs.push_back({{"file", e.first.file}, {"line", e.first.line}, {"idx", idx}});
  }
  json sites = json::array();
  for (auto& e : p.line_info)
    sites.push_back({{"i", e.first}, {"file", e.second.file}, {"line", e.second.line}});
  // the public list of available locations, asked of the very object the compiler returned
  json avail = json::array();
  for (auto& b : const_cast<Theo::Program&>(p).getAvailableBreakpoints()) avail.push_back({b.file, b.line});
  return {{"code", code}, {"maps", maps}, {"pbs", pbs}, {"sites", sites}, {"avail", avail}};
}

inline std::string unhex(const std::string& h) {
  std::string o;
  for (size_t i = 0; i + 1 < h.size(); i += 2) o.push_back((char)std::stoi(h.substr(i, 2), nullptr, 16));
  return o;
}
inline std::string tohex(const std::string& s) {
  static const char* d = "0123456789abcdef";
  std::string o;
  for (unsigned char c : s) { o.push_back(d[c >> 4]); o.push_back(d[c & 15]); }
  return o;
}

// input record {"files":{name:text}, "main":name} or {"hexfiles":{name:hex}, ...}
inline std::map<std::string, std::string> files_of(const json& j) {
  std::map<std::string, std::string> f;
  if (j.contains("files"))
    for (auto& e : j["files"].items()) f[e.key()] = e.value().get<std::string>();
  if (j.contains("hexfiles"))
    for (auto& e : j["hexfiles"].items()) f[e.key()] = unhex(e.value().get<std::string>());
  return f;
}

// commands already run on the big-stack thread (see main.cpp)
inline void run_big_stack(std::function<void()> fn) { fn(); }
// run fn on a thread with a 1 GB stack (sanitizer-inflated recursion must not fake a crash)
inline void run_on_big_stack(std::function<void()> fn, size_t bytes = (size_t)1 << 30) {
  pthread_attr_t at;
  pthread_attr_init(&at);
  pthread_attr_setstacksize(&at, bytes);
  pthread_t t;
  auto tramp = [](void* p) -> void* { (*(std::function<void()>*)p)(); return nullptr; };
  if (pthread_create(&t, &at, tramp, &fn) != 0) { fn(); return; }
  pthread_join(t, nullptr);
  pthread_attr_destroy(&at);
}

inline int count_lines(const std::string& s) {
  // number of lines a location may name: 1 + number of '\n' (line numbers start at 1)
  int n = 1;
  for (char c : s) if (c == '\n') n++;
  return n;
}

inline json tokens_json(const std::vector<Theo::Token>& toks) {
  json a = json::array();
  for (auto& t : toks) a.push_back({{"k", (int)t.t}, {"x", tohex(t.text)}, {"f", t.file}, {"l", t.line}});
  return a;
}

inline void emit(const json& j) {
  std::cout << j.dump(-1, ' ', false, json::error_handler_t::replace) << "\n";
  std::cout.flush();
}

inline std::string digest_of(const Theo::CodegenResult& cr) {
  json j = {{"ok", cr.generated_correctly}, {"prog", dump_program(cr.code)}, {"requests", cr.file_requests}};
  json errs = json::array();
  for (auto& e : cr.errors) errs.push_back({(int)e.t, e.message, e.file, e.line});
  j["errors"] = errs;
  std::string s = j.dump();
  // FNV-1a 64 over the serialisation, plus its length: equal digests <=> identical results for all practical purposes
  unsigned long long h = 1469598103934665603ULL;
  for (unsigned char c : s) { h ^= c; h *= 1099511628211ULL; }
  return std::to_string(h) + ":" + std::to_string(s.size());
}

// per-input watchdog: a call of the code under test that does not return within `secs` ends the process with a {"hang":i} record
// (exit 75), so that a non-terminating change costs seconds, not the batch timeout.  Macro expansion is the one place where legitimate
// work can be very long (its cost grows with the fourth power of the pass budget on self-feeding macros): when the pass counter of the
// hook Theo::verif_macro_passes has advanced since the last alarm the run is progressing, not hanging - the alarm is re-armed up to
// `ext` times and then the input is given up as {"slow":i} (exit 76), which is counted but is no verdict either way
inline volatile long g_watch_case = -1;
inline volatile unsigned long g_watch_pass = 0, g_watch_pass0 = 0;
inline volatile int g_watch_secs = 0, g_watch_ext = 0;
inline void on_watch_alarm(int) {
  unsigned long now = Theo::verif_macro_passes.load(std::memory_order_relaxed);
  bool progress = g_watch_ext >= 0 && now != g_watch_pass;       // ext < 0: plain watchdog, any overrun is a hang
  if (progress && g_watch_ext > 0) {
    g_watch_pass = now;
    g_watch_ext = g_watch_ext - 1;
    alarm(g_watch_secs);
    return;
  }
  char buf[96];
  int n = snprintf(buf, sizeof buf, progress ? "{\"slow\":%ld,\"passes\":%lu}\n" : "{\"hang\":%ld,\"passes\":%lu}\n", (long)g_watch_case, now - g_watch_pass0);
  if (write(1, buf, n)) {}
  _exit(progress ? 76 : 75);
}
inline void watch(long i, int secs, int ext = -1) {
  g_watch_case = i; g_watch_secs = secs; g_watch_ext = ext;
  g_watch_pass = g_watch_pass0 = Theo::verif_macro_passes.load(std::memory_order_relaxed);
  signal(SIGALRM, on_watch_alarm); alarm(secs);
}
inline void unwatch() { alarm(0); }

typedef int (*cmd_fn)(int, char**);
struct Registry {
  static std::map<std::string, cmd_fn>& get() { static std::map<std::string, cmd_fn> m; return m; }
};
struct Reg { Reg(const char* n, cmd_fn f) { Registry::get()[n] = f; } };

}  // namespace th
