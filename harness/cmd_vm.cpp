// vmreplay: S->I. Replays TLC-generated debugger histories on the real VM, reports the observation after every call.
// vmtrace : I->S. Drives the real VM with a seeded random history and logs one event per call (TheoVMTrace.tla).
// steptrace: I->S for TheoSem: full stepping run, one event per stop with the views of all live activations.
#include <signal.h>
#include <unistd.h>

#include <random>

#include "common.hpp"
#include <memory>
using namespace Theo;

static json frames_json(VM& v, bool words) {
  json st = json::array();
  auto& data = v.verifData();
  for (size_t k = 0; k < v.verifDepth(); k++) {
    auto f = v.verifFrame(k);
    json fr = {{"base", f.data_start}, {"size", f.seg_size}, {"rt", f.ret_target}, {"ra", f.ret_addr}, {"map", f.debug_info}};
    if (words) {
      json w = json::array();
      for (int i = 0; i < f.seg_size; i++) {
        size_t at = (size_t)f.data_start + i;
        w.push_back(at < data.size() ? json(data[at]) : json(-1));   // -1: the frame reaches beyond the data memory (no word is negative)
      }
      fr["words"] = w;
    }
    st.push_back(fr);
  }
  return st;
}

static json views_json(VM& v) {
  json vs = json::array();
  const Program& prog = v.verifProgram();
  auto& acts = v.getActivations();
  for (size_t k = 0; k < acts.size(); k++) {
    auto f = v.verifFrame(k);
    json one = json::array();
    // getActivationVariables indexes stack_maps and data unchecked; guard so that a malformed program is
    // reported by the specification (MapOK) and not by a crash of the observer
    bool safe = f.debug_info >= 0 && (size_t)f.debug_info < prog.stack_maps.size();
    if (safe)
      for (auto& e : prog.stack_maps[f.debug_info].map)
        if (e.first < 0 || (size_t)(f.data_start + e.first) >= v.verifData().size()) safe = false;
    if (safe) {
      auto m = acts[k].getActivationVariables();
      for (auto& e : m) one.push_back(json::array({e.first, e.second}));
    }
    vs.push_back(one);
  }
  return vs;
}

static json ops_json(VM& v, const Program& pristine) {
  json o = json::array();
  const Program& cur = v.verifProgram();
  for (size_t i = 0; i < cur.code.size(); i++)
    if (cur.code[i].op != pristine.code[i].op || cur.code[i].op == OpCode::BREAK)
      o.push_back(json::array({(int)i, th::opname(cur.code[i].op)}));
  return o;
}

static json observe(VM& v, const Program& pristine, const std::string& ret) {
  json o;
  o["ip"] = v.verifInstructionPointer();
  o["ops"] = ops_json(v, pristine);
  o["data"] = v.verifData();
  o["datalen"] = (int)v.verifData().size();
  o["stack"] = frames_json(v, true);
  json en = json::array();
  for (auto& b : v.getEnabledBreakPoints()) en.push_back(json::array({b.file, b.line}));
  o["enabled"] = en;
  o["stepping"] = v.isSteppingModeEnabled();
  o["ret"] = ret;
  auto cb = v.getCurrentBreak();
  o["cur"] = json::array({cb.file, cb.line});
  o["done"] = v.isDone();
  o["views"] = views_json(v);
  return o;
}

static volatile long g_case = -1;
static void on_alarm(int) {
  char buf[64];
  int n = snprintf(buf, sizeof buf, "{\"hang\":%ld}\n", g_case);
  if (write(1, buf, n)) {}
  _exit(75);
}

// input: {"load":{"files":..,"main":..}} then {"i":n,"h":[call..]} ; call = ["single"]|["execute"]|["bp",file,line,v]|["clear"]|["step",b]|["reset"]
static int cmd_vmreplay(int, char**) {
  signal(SIGALRM, on_alarm);
  std::string line;
  CodegenResult cr;
  Program pristine;
  bool loaded = false;
  while (std::getline(std::cin, line)) {
    if (line.empty()) continue;
    json in = json::parse(line);
    if (in.contains("load")) {
      cr = compile(th::files_of(in["load"]), in["load"].value("main", "m"));
      pristine = cr.code;
      loaded = cr.generated_correctly;
      th::emit({{"loaded", loaded}});
      continue;
    }
    if (!loaded) { th::emit({{"i", in["i"]}, {"error", "no program"}}); continue; }
    g_case = in["i"].get<long>();
    th::emit({{"b", in["i"]}});
    VM v(cr.code);
    json obs = json::array();
    for (auto& c : in["h"]) {
      std::string k = c[0].get<std::string>();
      std::string ret = "none";
      alarm(20);
      if (k == "single") ret = v.executeSingle() ? "true" : "false";
      else if (k == "execute") v.execute();
      else if (k == "bp") ret = v.setBreakPoint(c[1].get<std::string>(), c[2].get<int>(), c[3].get<bool>()) ? "true" : "false";
      else if (k == "clear") v.clearBreakpoints();
      else if (k == "step") v.setSteppingMode(c[1].get<bool>());
      else if (k == "reset") v.reset();
      alarm(0);
      obs.push_back(observe(v, pristine, ret));
    }
    th::emit({{"i", in["i"]}, {"obs", obs}});
  }
  return 0;
}
static th::Reg r1("vmreplay", cmd_vmreplay);


// drive a fresh VM on cr.code with a seeded random history; one event per call through `out`.
// With `fork`, the machine is copied at a random point of the history (VM b = a): the original goes on to the end of its history,
// then the copy is driven on its own - its log is a second execution (a "load" event, the original's events up to the copy, the copy's
// own events), so the specification demands that a copy is an independent machine in the state its original had.  Half-way through
// its own calls the copy is moved (VM c = std::move(b)) and the history continues on c, as happens inside a growing container.
static void drive_random(CodegenResult& cr, int p, unsigned seed, int calls, bool may_diverge, const std::string& style,
                         const std::function<void(const json&)>& out, bool fork = false) {
    std::mt19937 rng(seed);
    std::vector<BreakPoint> locs;
    Program prog = cr.code;
    const Program pristine = cr.code;      // the program as compiled (the machines get cr.code itself, whatever their constructor takes)
    for (auto& b : prog.getAvailableBreakpoints()) locs.push_back(b);
    auto pick = [&](int n) { return (int)(rng() % (unsigned)n); };
    auto one_call = [&](VM& v) -> json {
      int r = pick(100);
      json ev;
      std::string ret = "none";
      alarm(20);
      if (style == "single") r = 0;
      if (style == "reset_heavy" && pick(12) == 0) r = 90;  // more resets, also right after partial runs
      if (r < 45) {
        // log the executed instruction's ADD result so that an overflowing addition can be bound (C20)
        int ip = v.verifInstructionPointer();
        const Instruction& I = v.verifProgram().code[ip];
        bool isadd = I.op == OpCode::ADD_CONST;
        int tgt = isadd ? I.parameters.add.target : 0;
        size_t depth = v.verifDepth();
        int base = depth ? v.verifFrame(depth - 1).data_start : 0;
        ret = v.executeSingle() ? "true" : "false";
        ev["e"] = "single";
        if (isadd && (size_t)(base + tgt) < v.verifData().size()) ev["addres"] = v.verifData()[base + tgt];
      } else if (r < 55 && !may_diverge) {
        v.execute(); ev["e"] = "execute";
      } else if (r < 75) {
        BreakPoint b = (locs.empty() || pick(8) == 0) ? BreakPoint{"nofile", 1 + pick(3)} : locs[pick((int)locs.size())];
        if (!locs.empty() && pick(10) == 0) b.line += 1000;  // right file, absent line
        bool val = pick(3) != 0;
        ret = v.setBreakPoint(b.file, b.line, val) ? "true" : "false";
        ev["e"] = "bp"; ev["file"] = b.file; ev["line"] = b.line; ev["v"] = val;
      } else if (r < 79) {
        v.clearBreakpoints(); ev["e"] = "clear";
      } else if (r < 89) {
        bool b = pick(2) == 0; v.setSteppingMode(b); ev["e"] = "step"; ev["v"] = b;
      } else if (r < 92) {
        v.reset(); ev["e"] = "reset";
      } else {
        ev["e"] = "inspect";
      }
      alarm(0);
      json o = observe(v, pristine, ret);
      o.erase("data");
      for (auto& kv : o.items()) ev[kv.key()] = kv.value();
      return ev;
    };
    auto a = std::make_unique<VM>(cr.code);
    std::unique_ptr<VM> b;
    std::vector<json> prefix;
    int fork_at = fork ? pick(calls > 1 ? calls : 1) : -1;
    out({{"e", "load"}, {"p", p}});
    for (int c = 0; c < calls; c++) {
      json ev = one_call(*a);
      if (fork_at >= 0 && c <= fork_at) prefix.push_back(ev);
      out(ev);
      if (c == fork_at) b = std::make_unique<VM>(*a);        // the copy; the original runs on below
    }
    if (b) {
      a.reset();                                            // the original is gone before its copy is used
      out({{"e", "load"}, {"p", p}, {"copy", true}});
      for (auto& ev : prefix) out(ev);
      int own = calls / 2 + 4;
      for (int c = 0; c < own; c++) {
        if (c == own / 2) { auto c2 = std::make_unique<VM>(std::move(*b)); b = std::move(c2); }
        out(one_call(*b));
      }
    }
}

// input: {"p":k,"files":..,"main":..,"seed":s,"calls":n,"may_diverge":bool,"style":"mixed|single|stepping"}
// output: {"e":"load","p":k} then one event per call
static int cmd_vmtrace(int, char**) {
  signal(SIGALRM, on_alarm);
  std::string line;
  while (std::getline(std::cin, line)) {
    if (line.empty()) continue;
    json in = json::parse(line);
    CodegenResult cr = compile(th::files_of(in), in.value("main", "m"));
    if (!cr.generated_correctly) { th::emit({{"skip", in["p"]}}); continue; }
    int p = in["p"].get<int>();
    g_case = p;
    drive_random(cr, p, (unsigned)in.value("seed", 1), in.value("calls", 100), in.value("may_diverge", false),
                 in.value("style", "mixed"), [](const json& ev) { th::emit(ev); }, in.value("fork", false));
  }
  return 0;
}
static th::Reg r2("vmtrace", cmd_vmtrace);

// input: {"i":n,"files":..,"main":..,"budget":instructions}
// output: {"i":n,"ok":bool,"stops":[{"file","line","done":bool,"views":[[[name,val]..]..],"depth":d}], "finished":bool, "steps":k, "maxdepth":d, "maxdata":w}
static int cmd_steptrace(int, char**) {
  std::string line;
  while (std::getline(std::cin, line)) {
    if (line.empty()) continue;
    json in = json::parse(line);
    CodegenResult cr;
    auto files = th::files_of(in);
    th::run_big_stack([&]() { cr = compile(files, in.value("main", "m")); });
    json out; out["i"] = in["i"]; out["ok"] = cr.generated_correctly;
    if (!cr.generated_correctly) {
      json errs = json::array();
      for (auto& e : cr.errors) errs.push_back({{"t", (int)e.t}, {"file", e.file}, {"line", e.line}, {"msg", e.message}});
      out["errors"] = errs;
      th::emit(out); continue;
    }
    long budget = in.value("budget", 200000L), steps = 0;
    bool every = in.value("every", true);
    VM v(cr.code);
    v.setSteppingMode(true);
    json stops = json::array();
    size_t maxdepth = 0, maxdata = 0; bool finished = false; bool frames_exact = true;
    while (steps < budget) {
      bool at_halt = v.verifProgram().code[v.verifInstructionPointer()].op == OpCode::HALT;
      bool stop = v.executeSingle(); steps++;
      maxdepth = std::max(maxdepth, v.verifDepth());
      maxdata = std::max(maxdata, v.verifData().size());
      size_t live = 0; for (size_t k = 0; k < v.verifDepth(); k++) live += v.verifFrame(k).seg_size;
      if (live != v.verifData().size()) frames_exact = false;
      if (!stop) continue;
      // "done": the stop was produced by executing HALT (end of program or STOP), not by a site
      if (every || at_halt) {
        auto cb = v.getCurrentBreak();
        stops.push_back({{"file", cb.file}, {"line", cb.line}, {"done", at_halt}, {"isdone", v.isDone()}, {"views", views_json(v)}});
      }
      if (at_halt) { finished = true; break; }
    }
    // the same program once more, uninterrupted: execute() on a fresh VM without stepping mode (the path the command line tool takes)
    if (finished) {
      VM v2(cr.code);
      signal(SIGALRM, on_alarm);
      g_case = in["i"].is_number() ? in["i"].get<long>() : -1;
      alarm(30);
      v2.execute();
      alarm(0);
      out["exec_views"] = views_json(v2);
      out["exec_done"] = v2.isDone();
    }
    out["stops"] = stops; out["finished"] = finished; out["steps"] = steps;
    out["maxdepth"] = (int)maxdepth; out["maxdata"] = (int)maxdata; out["frames_exact"] = frames_exact;
    out["nmaps"] = (int)cr.code.stack_maps.size();
    if (in.value("prog", false)) out["prog"] = th::dump_program(cr.code);
    th::emit(out);
  }
  return 0;
}
static th::Reg r3("steptrace", cmd_steptrace);

// sys: C18. T threads, each compiling inputs of a shared pool and driving private VM instances; every thread logs its own events
// (per-thread sequence numbers); the log is printed when all threads have finished.
// input : {"pool":[{"files":..,"main":..},..],"threads":T,"ops":N,"seed":s,"calls":c}
// output: {"e":"compile","t":tid,"seq":n,"input":k,"digest":str,"ok":bool} and VM events (as vmtrace) tagged with "t","inst"
#include <thread>
#include <mutex>
static int cmd_sys(int, char**) {
  std::string line;
  while (std::getline(std::cin, line)) {
    if (line.empty()) continue;
    json in = json::parse(line);
    std::vector<std::pair<std::map<std::string, std::string>, std::string>> pool;
    for (auto& x : in["pool"]) pool.push_back({th::files_of(x), x.value("main", "m")});
    int T = in.value("threads", 4), ops = in.value("ops", 10), calls = in.value("calls", 60);
    unsigned seed = in.value("seed", 1);
    std::vector<std::vector<json>> logs(T);
    std::vector<std::thread> ths;
    for (int t = 0; t < T; t++) {
      ths.emplace_back([&, t]() {
        std::mt19937 rng(seed * 7919u + t);
        int seq = 0;
        for (int o = 0; o < ops; o++) {
          int k = (int)(rng() % pool.size());
          CodegenResult cr = compile(pool[k].first, pool[k].second);
          logs[t].push_back({{"e", "compile"}, {"t", t}, {"seq", seq++}, {"input", k}, {"digest", th::digest_of(cr)}, {"ok", cr.generated_correctly}});
          if (cr.generated_correctly && (rng() % 3) != 0) {
            int inst = t * 1000 + o * 2 - 1;
            drive_random(cr, k + 1, (unsigned)rng(), calls, true, "mixed", [&](const json& ev) {
              if (ev.value("e", "") == "load") inst++;         // a copied machine is an instance of its own
              json e2 = ev; e2["t"] = t; e2["inst"] = inst; e2["seq"] = seq++;
              logs[t].push_back(e2);
            }, (rng() % 2) == 0);
          }
          if (rng() % 4 == 0) std::this_thread::yield();
        }
      });
    }
    for (auto& th_ : ths) th_.join();
    for (auto& l : logs) for (auto& e : l) th::emit(e);
    th::emit({{"e", "done"}});
  }
  return 0;
}
static th::Reg r4("sys", cmd_sys);

// vmwalk: I->S with exhaustive coverage. One VM instance is walked through its complete reachable state graph: from the current
// state an unexplored (state, call) pair is taken if there is one, otherwise the walk moves along already known transitions to the
// nearest state that still has one (reset makes the graph strongly connected). Every call is logged as a TheoVMTrace event, so the
// specification has to explain every transition of the real debugger on this program, not a sample of them.
// input : {"p":k,"files":..,"main":..,"max_states":n}
#include <deque>
#include <unordered_map>
static int cmd_vmwalk(int, char**) {
  signal(SIGALRM, on_alarm);
  std::string line;
  while (std::getline(std::cin, line)) {
    if (line.empty()) continue;
    json in = json::parse(line);
    CodegenResult cr = compile(th::files_of(in), in.value("main", "m"));
    if (!cr.generated_correctly) { th::emit({{"skip", in["p"]}}); continue; }
    int p = in["p"].get<int>();
    size_t max_states = in.value("max_states", 20000);
    Program prog = cr.code;
    std::vector<json> calls;   // the call alphabet
    calls.push_back({{"e", "single"}}); calls.push_back({{"e", "execute"}}); calls.push_back({{"e", "clear"}}); calls.push_back({{"e", "reset"}});
    calls.push_back({{"e", "step"}, {"v", true}}); calls.push_back({{"e", "step"}, {"v", false}});
    std::vector<BreakPoint> locs;
    for (auto& b : prog.getAvailableBreakpoints()) locs.push_back(b);
    locs.push_back(BreakPoint{"nofile", 1});
    for (auto& b : locs) for (bool v : {true, false}) calls.push_back({{"e", "bp"}, {"file", b.file}, {"line", b.line}, {"v", v}});
    const size_t NC = calls.size();
    VM v(cr.code);
    th::emit({{"e", "load"}, {"p", p}});
    auto key_of = [&](VM& m) {
      json o = observe(m, prog, "none");
      o.erase("ret");
      return o.dump();
    };
    std::unordered_map<std::string, int> id;           // state key -> index
    std::vector<std::vector<int>> succ;                 // succ[state][call] = state or -1
    auto intern = [&](const std::string& k) {
      auto it = id.find(k);
      if (it != id.end()) return it->second;
      int n = (int)succ.size();
      id.emplace(k, n);
      succ.push_back(std::vector<int>(NC, -1));
      return n;
    };
    int cur = intern(key_of(v));
    long steps = 0;
    bool truncated = false;
    auto apply = [&](size_t c) {
      const json& call = calls[c];
      std::string e = call["e"].get<std::string>(), ret = "none";
      json ev = call;
      alarm(20);
      if (e == "single") {
        int ip = v.verifInstructionPointer();
        const Instruction& I = v.verifProgram().code[ip];
        bool isadd = I.op == OpCode::ADD_CONST;
        int tgt = isadd ? I.parameters.add.target : 0;
        size_t depth = v.verifDepth();
        int base = depth ? v.verifFrame(depth - 1).data_start : 0;
        ret = v.executeSingle() ? "true" : "false";
        if (isadd && (size_t)(base + tgt) < v.verifData().size()) ev["addres"] = v.verifData()[base + tgt];
      } else if (e == "execute") v.execute();
      else if (e == "clear") v.clearBreakpoints();
      else if (e == "reset") v.reset();
      else if (e == "step") v.setSteppingMode(call["v"].get<bool>());
      else if (e == "bp") ret = v.setBreakPoint(call["file"].get<std::string>(), call["line"].get<int>(), call["v"].get<bool>()) ? "true" : "false";
      alarm(0);
      json o = observe(v, prog, ret);
      o.erase("data");
      for (auto& kv : o.items()) ev[kv.key()] = kv.value();
      th::emit(ev);
      steps++;
      o.erase("ret");
      json k = observe(v, prog, "none"); k.erase("ret");
      int nxt = intern(k.dump());
      succ[cur][c] = nxt;
      cur = nxt;
    };
    for (;;) {
      if (succ.size() > max_states) { truncated = true; break; }
      // an unexplored call in the current state?
      size_t c = 0;
      while (c < NC && succ[cur][c] != -1) c++;
      if (c < NC) { apply(c); continue; }
      // breadth-first search over known transitions for the nearest state with an unexplored call
      std::vector<int> prev(succ.size(), -2), via(succ.size(), -1);
      std::deque<int> q; q.push_back(cur); prev[cur] = -1;
      int target = -1;
      while (!q.empty() && target < 0) {
        int s = q.front(); q.pop_front();
        for (size_t k = 0; k < NC; k++) {
          int t = succ[s][k];
          if (t < 0) { target = s; break; }
          if (prev[t] == -2) { prev[t] = s; via[t] = (int)k; q.push_back(t); }
        }
      }
      if (target < 0) break;          // everything explored
      std::vector<int> path;
      for (int s = target; s != cur; s = prev[s]) path.push_back(via[s]);
      for (auto it = path.rbegin(); it != path.rend(); ++it) apply((size_t)*it);
    }
    std::cerr << "vmwalk p=" << p << " states=" << succ.size() << " calls=" << NC << " steps=" << steps << (truncated ? " TRUNCATED" : " complete") << "\n";
    th::emit({{"walk", p}, {"states", (int)succ.size()}, {"alphabet", (int)NC}, {"steps", steps}, {"complete", !truncated}});
  }
  return 0;
}
static th::Reg r5("vmwalk", cmd_vmwalk);
