// th <command> [args]  -- harness binary of /verif; each command reads ndjson on stdin, writes ndjson on stdout
#include "common.hpp"
#include <unistd.h>
#include <exception>
int main(int argc, char** argv) {
  std::set_terminate([]() { std::cout.flush(); fprintf(stderr, "TERMINATE\n"); _exit(70); });
  if (argc < 2 || !th::Registry::get().count(argv[1])) {
    fprintf(stderr, "usage: th <command>; commands:");
    for (auto& e : th::Registry::get()) fprintf(stderr, " %s", e.first.c_str());
    fprintf(stderr, "\n");
    return 64;
  }
  return th::Registry::get()[argv[1]](argc - 1, argv + 1);
}
