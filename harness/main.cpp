// th <command> [args]  -- harness binary of /verif; each command reads ndjson on stdin, writes ndjson on stdout
#include "common.hpp"
#include <unistd.h>
#include <exception>
int main(int argc, char** argv) {
  std::set_terminate([]() { std::cout.flush(); fprintf(stderr, "TERMINATE\n"); _exit(70); });
  if (argc < 2 || !th::Registry::get().count(argv[1])) {
    fprintf(stderr, "usage: th <command>; commands:");
    for (auto& e : th::Registry::get()) fprintf(stderr, " %s", e.first.c_str());
    fprintf(stderr, "\n");
    return 64;
  }
  // the whole command runs on one thread with a 1 GB stack (sanitizer-inflated recursion in the parser / code generator
  // must not fake a crash); creating such a thread per compilation is far too slow under ASan
  int rc = 0;
  auto fn = th::Registry::get()[argv[1]];
  th::run_on_big_stack([&]() { rc = fn(argc - 1, argv + 1); });
  return rc;
}
