// lr: instantiate the real LRParser from a JSON grammar (C13). Semantic values are derivation terms.
// input : {"i":n,"rules":[{"l":"S","r":["a","A"]},...],"inputs":[["a","b"],...]}   non-terminals S (start), A; terminals a=1, b=2, end marker 0
// output: {"i":n,"full":{"conflict":bool,"runs":[[acc,term]...]},"pre":{...},"first":{"S":[..],"A":[..]}}
#include "common.hpp"
#include "Compiler/include/ParserGenerator/lrparser.hpp"
using namespace Theo;

static std::string rule_name(const json& r) {
  std::string s = r["l"].get<std::string>() + ">";
  for (auto& x : r["r"]) s += x.get<std::string>();
  return s;
}

static int cmd_lr(int, char**) {
  std::string line;
  while (std::getline(std::cin, line)) {
    if (line.empty()) continue;
    json in = json::parse(line);
    th::emit({{"begin", in["i"]}});
    json out; out["i"] = in["i"];
    th::watch(in["i"].is_number() ? in["i"].get<long>() : -1, 60);
    for (int mode = 0; mode < 2; mode++) {
      bool prefix = mode == 1;
      SemanticGrammar<std::string> G;
      // non-terminals in creation order S, A, B, C (the order matters to the fixpoint iterations)
      auto S = G.createNonTerminal(); auto A = G.createNonTerminal();
      auto B = G.createNonTerminal(); auto C = G.createNonTerminal();
      auto sym = [&](const std::string& c) -> Grammar::Symbol {
        if (c == "S") return S;
        if (c == "A") return A;
        if (c == "B") return B;
        if (c == "C") return C;
        return Grammar::Symbol::Terminal(c == "a" ? 1 : 2);
      };
      // "inc": the grammar is built in two phases with queries in between (FIRST sets and a closure on the grammar so far);
      // the grammar object afterwards is the same grammar, so tables and behaviour must be the same
      bool incremental = in.value("incremental", false) && mode == 0;
      size_t nrule = 0, half = in["rules"].size() / 2;
      for (auto& r : in["rules"]) {
        if (incremental && nrule++ == half && half > 0) {
          G.calculateFirstSets();
          if (G.right_sides.contains(S) && !G.right_sides[S].empty())   // an item needs an existing alternative of S
            hull(std::set<LRElement>{{S, 0, 0, Grammar::Symbol::Terminal(0)}}, G);
        }
        std::vector<Grammar::Symbol> rhs;
        // "eps": right-hand sides written with explicit epsilons around every symbol (add() strips them: the same grammar)
        bool eps = in.value("eps", false);
        if (eps) rhs.push_back(Grammar::Symbol::Epsilon());
        for (auto& x : r["r"]) { rhs.push_back(sym(x.get<std::string>())); if (eps) rhs.push_back(Grammar::Symbol::Epsilon()); }
        if (eps && r["r"].empty()) rhs.push_back(Grammar::Symbol::Epsilon());
        std::string tag = rule_name(r);
        G.add(std::make_pair(sym(r["l"].get<std::string>()), rhs), [tag](std::vector<std::string> v) -> std::string {
          std::string o = tag + "(";
          for (size_t k = 0; k < v.size(); k++) { if (k) o += " "; o += v[k]; }   // children as handed over (last symbol first)
          return o + ")";
        });
      }
      if (mode == 0) {
        // FIRST sets of the grammar as written (public member, textbook definition)
        SemanticGrammar<std::string> G2 = G;
        G2.calculateFirstSets();
        json first;
        for (const char* n : {"S", "A", "B", "C"}) {
          json f = json::array();
          auto it = G2.first_sets.find(sym(n));
          if (it != G2.first_sets.end())
            for (auto& s : it->second) {
              if (s.t == Grammar::Symbol::EPSILON) f.push_back("eps");
              else if (s.t == Grammar::Symbol::TERMINAL) f.push_back(s.index == 1 ? "a" : s.index == 2 ? "b" : "?");
            }
          first[n] = f;
        }
        out["first"] = first;
        // the same grammar written into a plain Grammar with explicit epsilon symbols (an empty alternative is {eps}; with "eps" every
        // symbol is surrounded by epsilons): FIRST must be the same sets, and first() of strings made of epsilons the textbook ones
        Grammar P0;
        auto pS = P0.createNonTerminal(); auto pA = P0.createNonTerminal(); auto pB = P0.createNonTerminal(); auto pC = P0.createNonTerminal();
        auto psym = [&](const std::string& c) -> Grammar::Symbol {
          if (c == "S") return pS;
          if (c == "A") return pA;
          if (c == "B") return pB;
          if (c == "C") return pC;
          return Grammar::Symbol::Terminal(c == "a" ? 1 : 2);
        };
        bool eps = in.value("eps", false);
        for (auto& r : in["rules"]) {
          Grammar::Alternative alt;
          if (eps || r["r"].empty()) alt.push_back(Grammar::Symbol::Epsilon());
          for (auto& x : r["r"]) { alt.push_back(psym(x.get<std::string>())); if (eps) alt.push_back(Grammar::Symbol::Epsilon()); }
          P0.right_sides[psym(r["l"].get<std::string>())].push_back(alt);
        }
        P0.calculateFirstSets();
        auto names = [&](const std::set<Grammar::Symbol>& st) {
          json f = json::array();
          for (auto& x : st) {
            if (x.t == Grammar::Symbol::EPSILON) f.push_back("eps");
            else if (x.t == Grammar::Symbol::TERMINAL) f.push_back(x.index == 1 ? "a" : x.index == 2 ? "b" : "?");
          }
          return f;
        };
        json fp;
        for (const char* n : {"S", "A", "B", "C"}) {
          auto it = P0.first_sets.find(psym(n));
          fp[n] = it == P0.first_sets.end() ? json::array() : names(it->second);
        }
        out["first_plain"] = fp;
        out["first_of_eps"] = names(P0.first({Grammar::Symbol::Epsilon()}));
        out["first_of_eps_a"] = names(P0.first({Grammar::Symbol::Epsilon(), Grammar::Symbol::Terminal(1)}));
      }
      LRParser<std::string, int> P(G, prefix, [](int t) { return Grammar::Symbol::Terminal(t); },
                                   [](int t) { return std::string(t == 1 ? "a" : t == 2 ? "b" : "$"); }, S, Grammar::Symbol::Terminal(0));
      auto gr = P.generateParseTables();
      json m; m["conflict"] = !gr.empty();
      json msgs = json::array();
      for (size_t k = 0; k < gr.size() && k < 4; k++) msgs.push_back(gr[k].msg);
      m["msgs"] = msgs;
      json runs = json::array();
      if (gr.empty()) {
        for (auto& w : in["inputs"]) {
          std::vector<int> toks;
          // "c" is a terminal the grammar does not mention (index 7), "n" one with a negative index
          for (auto& c : w) { std::string x = c.get<std::string>(); toks.push_back(x == "a" ? 1 : x == "b" ? 2 : x == "c" ? 7 : -3); }
          toks.push_back(0);
          auto res = P.parse(toks);
          bool acc = res.t == res.ACCEPT;
          runs.push_back(json::array({acc, acc ? res.st : std::string("")}));
        }
      }
      m["runs"] = runs;
      if (in.value("regen", false)) {
        // generating the tables again (on a copy of the generated parser, as a cache or a container would) reports the same conflicts
        auto P2 = P;
        auto gr2 = P2.generateParseTables();
        m["conflict2"] = !gr2.empty();
      }
      out[prefix ? "pre" : "full"] = m;
    }
    th::unwatch();
    th::emit(out);
  }
  return 0;
}
static th::Reg r("lr", cmd_lr);
