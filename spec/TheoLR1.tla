------------------------------- MODULE TheoLR1 -------------------------------
(***************************************************************************)
(* C13 (and the table construction used by C12): canonical LR(1).          *)
(*                                                                         *)
(* Textbook definitions as TLA+ operators: nullable, FIRST, closure, goto, *)
(* canonical collection, conflicts (full and prefix mode: in prefix mode   *)
(* an item whose lookahead is the end marker reduces on every terminal),   *)
(* and the shift/reduce driver working directly on item sets, carrying a   *)
(* value stack (a reduction hands its children over last symbol first, as  *)
(* the implementation does).  Independently: Lang = least fixpoint of the  *)
(* rule equations over strings of bounded length, TreeCount = number of    *)
(* derivation trees capped at 2.  The theorem tying both sides together is *)
(* checked for EVERY grammar of the enumerated class (invariant Thm); the  *)
(* per-grammar results are emitted for the S->I replay into LRParser.      *)
(***************************************************************************)
EXTENDS Integers, Sequences, FiniteSets, TLC, Json, IOUtils
MaxRules == atoi(IOEnv.LRRULES)
MaxRhs == atoi(IOEnv.LRRHS)
MaxIn == atoi(IOEnv.LRIN)

\* the exhaustively enumerated class uses two non-terminals; given (generated) grammars may use four
NT == IF IOEnv.LRNT = "4" THEN {"S", "A", "B", "C"} ELSE {"S", "A"}
Term == {"a","b"}
Eof == "$"
Sym == NT \cup Term
RhsSet == {<<>>} \cup {<<a>> : a \in Sym} \cup (IF MaxRhs >= 2 THEN {<<a,b>> : a, b \in Sym} ELSE {}) \cup (IF MaxRhs >= 3 THEN {<<a,b,c>> : a, b, c \in Sym} ELSE {})
Cand == {[l |-> n, r |-> rhs] : n \in NT, rhs \in RhsSet}
\* grammars as sets of rules of size <= MaxRules containing an S-rule; enumerated incrementally
RECURSIVE Grammars(_)
Grammars(k) == IF k = 0 THEN {{}} ELSE LET P == Grammars(k-1) IN P \cup {g \cup {c} : g \in {g \in P : Cardinality(g) = k-1}, c \in Cand}
AllG == {g \in Grammars(MaxRules) : \E r \in g : r.l = "S"}

Start == "S0"
Aug(g) == g \cup {[l |-> Start, r |-> <<"S">>]}
IsNT(x) == x \in NT \cup {Start}

RECURSIVE NullFix(_,_)
NullFix(R, N) == LET N2 == N \cup {r.l : r \in {r \in R : \A j \in DOMAIN r.r : r.r[j] \in N}} IN IF N2 = N THEN N ELSE NullFix(R, N2)
RECURSIVE FirstFix(_,_,_)
FirstFix(R, Nl, F) ==
  LET FS(s) == IF IsNT(s) THEN F[s] ELSE {s}
      Contrib(r) == UNION {FS(r.r[j]) : j \in {j \in DOMAIN r.r : \A i \in 1..(j-1) : r.r[i] \in Nl}}
      F2 == [n \in NT \cup {Start} |-> F[n] \cup UNION {Contrib(r) : r \in {r \in R : r.l = n}}]
  IN IF F2 = F THEN F ELSE FirstFix(R, Nl, F2)
FirstSeq(F, Nl, beta, a) ==
  LET FS(s) == IF IsNT(s) THEN F[s] ELSE {s} IN
  UNION {FS(beta[j]) : j \in {j \in DOMAIN beta : \A i \in 1..(j-1) : beta[i] \in Nl}} \cup (IF \A i \in DOMAIN beta : beta[i] \in Nl THEN {a} ELSE {})

NextSym(it) == IF it.d < Len(it.r.r) THEN it.r.r[it.d+1] ELSE "<none>"
RECURSIVE Closure(_,_,_,_)
Closure(R, F, Nl, I) ==
  LET new == UNION { LET B == NextSym(it) IN
        IF IsNT(B) THEN {[r |-> r, d |-> 0, a |-> la] : r \in {r \in R : r.l = B}, la \in FirstSeq(F, Nl, SubSeq(it.r.r, it.d+2, Len(it.r.r)), it.a)} ELSE {} : it \in I}
  IN IF new \subseteq I THEN I ELSE Closure(R, F, Nl, I \cup new)
Goto(R, F, Nl, I, X) == Closure(R, F, Nl, {[it EXCEPT !.d = it.d+1] : it \in {it \in I : NextSym(it) = X}})
RECURSIVE Collect(_,_,_,_,_)
Collect(R, F, Nl, C, fr) ==
  IF fr = {} THEN C ELSE
  LET succ == UNION {{Goto(R, F, Nl, I, X) : X \in {NextSym(it) : it \in I} \ {"<none>"}} : I \in fr} \ {{}}
      new == succ \ C
  IN Collect(R, F, Nl, C \cup new, new)

AllT == Term \cup {Eof}
Las(it, prefix) == IF prefix /\ it.a = Eof THEN AllT ELSE {it.a}
Complete(I) == {it \in I : it.d = Len(it.r.r)}
Conflict(I, prefix) ==
  LET shifts == {NextSym(it) : it \in I} \cap AllT  reds == Complete(I) IN
  \/ \E it \in reds : Las(it, prefix) \cap shifts # {}
  \/ \E i1, i2 \in reds : i1.r # i2.r /\ Las(i1, prefix) \cap Las(i2, prefix) # {}

\* rule name = left side, ">" and the right-hand side symbols; a tree prints as name(children), children last symbol first
RECURSIVE Cat(_, _)
Cat(q, i) == IF i > Len(q) THEN "" ELSE q[i] \o Cat(q, i + 1)
RuleName(r) == r.l \o ">" \o Cat(r.r, 1)
RECURSIVE JoinRev(_, _)
JoinRev(vs, i) == IF i = 0 THEN "" ELSE vs[i] \o (IF i > 1 THEN " " ELSE "") \o JoinRev(vs, i - 1)
\* driver over item sets; st: stack of item sets, vs: value stack (strings)
RECURSIVE Drive(_, _, _, _, _, _, _, _, _)
Drive(R, F, Nl, prefix, w, st, vs, pos, fuel) ==
  IF fuel = 0 THEN [res |-> "fuel", val |-> ""] ELSE
  LET I == st[Len(st)]  a == w[pos]
      reds == {it \in Complete(I) : a \in Las(it, prefix)}
  IN IF a \in {NextSym(it) : it \in I} /\ a # Eof
     THEN Drive(R, F, Nl, prefix, w, Append(st, Goto(R, F, Nl, I, a)), Append(vs, a), pos + 1, fuel - 1)
     ELSE IF reds = {} THEN [res |-> "reject", val |-> ""]
     ELSE LET it == CHOOSE it \in reds : TRUE  k == Len(it.r.r) IN
          IF it.r.l = Start THEN [res |-> "accept", val |-> vs[Len(vs)]]
          ELSE LET st2 == SubSeq(st, 1, Len(st) - k)
                   kids == SubSeq(vs, Len(vs) - k + 1, Len(vs))
                   v == RuleName(it.r) \o "(" \o JoinRev(kids, k) \o ")"
               IN Drive(R, F, Nl, prefix, w, Append(st2, Goto(R, F, Nl, st2[Len(st2)], it.r.l)),
                        Append(SubSeq(vs, 1, Len(vs) - k), v), pos, fuel - 1)

\* declarative language up to length MaxIn by fixpoint over string sets
Strs == UNION {[1..n -> Term] : n \in 0..MaxIn}
CatL(A, B) == {a \o b : a \in A, b \in B} \cap Strs
RECURSIVE SeqLang(_,_,_)
SeqLang(L, rhs, k) == IF k > Len(rhs) THEN {<<>>} ELSE CatL(IF IsNT(rhs[k]) THEN L[rhs[k]] ELSE {<<rhs[k]>>}, SeqLang(L, rhs, k+1))
RECURSIVE LangFix(_,_)
LangFix(R, L) == LET L2 == [n \in NT \cup {Start} |-> L[n] \cup UNION {SeqLang(L, r.r, 1) : r \in {r \in R : r.l = n}}] IN IF L2 = L THEN L ELSE LangFix(R, L2)

\* number of derivation trees capped at 2, height-bounded
RECURSIVE Splits(_,_)
Splits(w, k) == IF k = 1 THEN {<<w>>} ELSE UNION {{<<SubSeq(w,1,i)>> \o rest : rest \in Splits(SubSeq(w,i+1,Len(w)), k-1)} : i \in 0..Len(w)}
Min2(x) == IF x > 2 THEN 2 ELSE x
SumSet(f, Sx) == LET RECURSIVE Sm(_) Sm(Z) == IF Z = {} THEN 0 ELSE LET z == CHOOSE z \in Z : TRUE IN Min2(f[z] + Sm(Z \ {z})) IN Sm(Sx)
CountRule(Tc, r, w) ==
  IF Len(r.r) = 0 THEN (IF w = <<>> THEN 1 ELSE 0)
  ELSE LET sp == Splits(w, Len(r.r))
           val == [s \in sp |-> LET RECURSIVE Pr(_) Pr(k) == IF k > Len(r.r) THEN 1 ELSE
                                    Min2((IF IsNT(r.r[k]) THEN Tc[r.r[k]][s[k]] ELSE (IF s[k] = <<r.r[k]>> THEN 1 ELSE 0)) * Pr(k+1)) IN Pr(1)]
       IN SumSet(val, sp)
RECURSIVE TreeFix(_,_,_)
TreeFix(R, Tc, h) ==
  IF h = 0 THEN Tc ELSE
  LET T2 == [n \in NT \cup {Start} |-> [w \in Strs |-> LET rs == {r \in R : r.l = n} cnt == [r \in rs |-> CountRule(Tc, r, w)] IN SumSet(cnt, rs)]]
  IN IF T2 = Tc THEN Tc ELSE TreeFix(R, T2, h-1)

VARIABLES g, res
vars == <<g, res>>
Check(gr) ==
  LET R == Aug(gr)  Nl == NullFix(R, {})  F == FirstFix(R, Nl, [n \in NT \cup {Start} |-> {}])
      I0 == Closure(R, F, Nl, {[r |-> [l |-> Start, r |-> <<"S">>], d |-> 0, a |-> Eof]})
      C == Collect(R, F, Nl, {I0}, {I0})
      L == LangFix(R, [n \in NT \cup {Start} |-> {}])
      cfFull == ~\E I \in C : Conflict(I, FALSE)
      cfPre == ~\E I \in C : Conflict(I, TRUE)
      Tc == TreeFix(R, [n \in NT \cup {Start} |-> [w \in Strs |-> 0]], 5)
      amb == \E w \in Strs : Tc["S"][w] >= 2
      okFull == cfFull => \A w \in Strs : (Drive(R, F, Nl, FALSE, w \o <<Eof>>, <<I0>>, <<>>, 1, 60).res = "accept") <=> (w \in L["S"])
      okPre == cfPre => \A w \in Strs : (Drive(R, F, Nl, TRUE, w \o <<Eof>>, <<I0>>, <<>>, 1, 60).res = "accept") <=> (\E k \in 0..Len(w) : SubSeq(w, 1, k) \in L["S"])
      okAmb == amb => (~cfFull /\ ~cfPre)        \* prefix mode only adds lookaheads: an ambiguous grammar conflicts there too
      UsedT == UNION {{r.r[j] : j \in DOMAIN r.r} : r \in gr} \cap Term
      runs(pre) == {LET d == Drive(R, F, Nl, pre, w \o <<Eof>>, <<I0>>, <<>>, 1, 60) IN [w |-> w, acc |-> d.res = "accept", val |-> d.val] : w \in Strs}
      \* FIRST read off the declarative language: first terminals of derivable strings, "eps" if the empty string is derivable.
      \* Every first terminal of a derivable string is in the textbook fixpoint, and nullability is exact; the converse
      \* inclusion needs witnesses that may exceed the length bound (and fails for useless symbols), so it is not claimed
      firstDecl == [n \in NT |-> {w[1] : w \in {w \in L[n] : w # <<>>}} \cup (IF <<>> \in L[n] THEN {"eps"} ELSE {})]
      firstComp == [n \in NT |-> F[n] \cup (IF n \in Nl THEN {"eps"} ELSE {})]
      \* a unique tree: the value is the fold of that tree (checked through the tree count of the accepted strings)
      okTree == cfFull => \A w \in Strs : Tc["S"][w] <= 1
  IN [rules |-> gr, lang |-> L["S"], first |-> firstComp, okFirst |-> (\A n \in NT : firstDecl[n] \subseteq firstComp[n] /\ (("eps" \in firstComp[n]) <=> (<<>> \in L[n]))), okTree |-> okTree, runsFull |-> IF cfFull THEN runs(FALSE) ELSE {}, runsPre |-> IF cfPre THEN runs(TRUE) ELSE {},
      states |-> Cardinality(C), cfFull |-> cfFull, cfPre |-> cfPre, amb |-> amb, okFull |-> okFull, okPre |-> okPre, okAmb |-> okAmb]
Init == g \in AllG /\ res = [states |-> 0]
\* given grammars (a JSON list of rule lists), e.g. chains of unit and epsilon rules over four non-terminals
GivenG == JsonDeserialize(IOEnv.LRCASES)
GInit == (\E i \in DOMAIN GivenG : g = {GivenG[i][k] : k \in DOMAIN GivenG[i]}) /\ res = [states |-> 0]
Next == res.states = 0 /\ res' = Check(g) /\ UNCHANGED g /\ PrintT("@@" \o ToJson(res'))
Spec == Init /\ [][Next]_vars
GSpec == GInit /\ [][Next]_vars
Thm == res.states > 0 => (res.okFull /\ res.okPre /\ res.okAmb /\ res.okFirst /\ res.okTree)
=============================================================================
