------------------------------- MODULE TheoVM -------------------------------
(***************************************************************************)
(* The libtheo bytecode machine and its debugger API (VM/src/vm.cpp).      *)
(*                                                                         *)
(* The programs are not modelled: they are the real compiler's output,     *)
(* dumped by the harness (th compile --prog) and loaded from IOEnv.PROGS.  *)
(* One action per public VM call; execute() is split into Execute + Run so *)
(* that every instruction boundary inside it is a state.  A ghost          *)
(* reference machine g runs the pristine code without any debugger         *)
(* (Transparent, C05); stop decisions are stated over the site table       *)
(* (StopExact, C06); Reset/Done (C17); frame accounting (C19); word range  *)
(* (C20); no stuck state = every access stays inside the frame it          *)
(* addresses (C03).                                                        *)
(***************************************************************************)
EXTENDS Integers, Sequences, FiniteSets, TLC, Json, IOUtils, TheoVMCore

Progs == JsonDeserialize(IOEnv.PROGS)       \* sequence of dumped programs
NP == Len(Progs)
MaxWord == WordMax                           \* 2^31 - 1

Code(p) == Progs[p].code
NI(p) == Len(Progs[p].code)
Ins(p, i) == Progs[p].code[i + 1]           \* instruction indices are 0-based in the VM
InCode(p, i) == i >= 0 /\ i < NI(p)
Pristine(p) == [k \in 1..NI(p) |-> Progs[p].code[k].op]

\* ---- the two breakpoint tables, exactly as emitted -------------------------------------------
Pbs(p) == Progs[p].pbs                       \* potential_breaks: seq of [file, line, idx]
Sites(p) == Progs[p].sites                   \* line_info: seq of [i, file, line]
Locs(p) == {<<Pbs(p)[k].file, Pbs(p)[k].line>> : k \in DOMAIN Pbs(p)}
PbIdx(p, loc) == LET k == CHOOSE k \in DOMAIN Pbs(p) : <<Pbs(p)[k].file, Pbs(p)[k].line>> = loc
                 IN {Pbs(p)[k].idx[j] : j \in DOMAIN Pbs(p)[k].idx}
SiteIdx(p) == {Sites(p)[k].i : k \in DOMAIN Sites(p)}
SiteLoc(p, i) == LET k == CHOOSE k \in DOMAIN Sites(p) : Sites(p)[k].i = i
                 IN <<Sites(p)[k].file, Sites(p)[k].line>>
NoLoc == <<"none", -1>>
Maps(p) == Progs[p].maps

\* ---- C08: the tables are exact inverses and list exactly the break instructions ---------------
BreakKind == {"PB", "BRK"}
TablesOK(p) ==
  /\ \A k1, k2 \in DOMAIN Pbs(p) : <<Pbs(p)[k1].file, Pbs(p)[k1].line>> = <<Pbs(p)[k2].file, Pbs(p)[k2].line>> => k1 = k2
  /\ \A k1, k2 \in DOMAIN Sites(p) : Sites(p)[k1].i = Sites(p)[k2].i => k1 = k2
  /\ \A k \in DOMAIN Pbs(p) : Len(Pbs(p)[k].idx) >= 1
  /\ \A k \in DOMAIN Pbs(p) : \A j1, j2 \in DOMAIN Pbs(p)[k].idx : Pbs(p)[k].idx[j1] = Pbs(p)[k].idx[j2] => j1 = j2
  /\ \A loc \in Locs(p) : \A i \in PbIdx(p, loc) : i \in SiteIdx(p) /\ SiteLoc(p, i) = loc
  /\ \A i \in SiteIdx(p) : SiteLoc(p, i) \in Locs(p) /\ i \in PbIdx(p, SiteLoc(p, i))
  /\ \A i \in SiteIdx(p) : InCode(p, i) /\ Ins(p, i).op \in BreakKind
  /\ \A i \in 0..(NI(p) - 1) : Ins(p, i).op \in BreakKind => i \in SiteIdx(p)
  /\ \A loc \in Locs(p) : loc[1] # "__standards__" /\ loc[2] >= 1

\* ---- word arithmetic (C20) and the instruction semantics: module TheoVMCore ---------------------------------
\* StepF: one instruction of program p as a function of the machine state.  opsq: current opcodes (only break kinds ever differ
\* from the pristine code); operands always come from the pristine code, as in the VM.  AW(v, c) is the addition used
\* (trace specs bind overflow values).
StepF(p, opsq, ip, data, stack, stp, AW(_, _)) == StepP(Progs[p].code, opsq, ip, data, stack, stp, AW)

VARIABLES p,         \* index of the loaded program
          ip, ops, data, stack, enabled, stepping,
          mode,      \* "idle", or "run" while inside execute()
          ret,       \* return value of the last API call ("none" for void calls)
          g,         \* ghost: reference machine on the pristine code, no debugger
          hist       \* ghost: API calls so far with the expected observation after each
vars == <<p, ip, ops, data, stack, enabled, stepping, mode, ret, g, hist>>
mach == <<ip, ops, data, stack>>

\* ---- observations (getters are functions of the state) ---------------------------------------------
CurrentBreak == IF (ip - 1) \in SiteIdx(p) THEN SiteLoc(p, ip - 1) ELSE NoLoc
IsDone == InCode(p, ip) /\ ops[ip + 1] = "HALT"
MapOK(k) == /\ stack[k].map >= 0 /\ stack[k].map < Len(Maps(p))
            /\ \A e \in DOMAIN Maps(p)[stack[k].map + 1].regs :
                 LET r == Maps(p)[stack[k].map + 1].regs[e].r IN r >= 0 /\ stack[k].base + r < Len(data)
\* getActivationVariables of activation k: name -> value, the highest register wins for a repeated name
ViewOf(k) == LET regs == Maps(p)[stack[k].map + 1].regs
                 Last(n) == CHOOSE e \in DOMAIN regs : regs[e].name = n /\ \A e2 \in DOMAIN regs : regs[e2].name = n => regs[e2].r <= regs[e].r
             IN {<<regs[e].name, data[stack[k].base + regs[Last(regs[e].name)].r + 1]>> : e \in DOMAIN regs}
\* opcodes that differ from the pristine code, or are BREAK, as [index, op] pairs
OpsDiff == {<<i, ops[i + 1]>> : i \in {i \in 0..(NI(p) - 1) : ops[i + 1] # Ins(p, i).op \/ ops[i + 1] = "BRK"}}

\* ---- ghost reference machine ----------------------------------------------------------------------
RECURSIVE GSkip(_, _)
GSkip(q, i) == IF InCode(q, i) /\ Ins(q, i).op \in BreakKind THEN GSkip(q, i + 1) ELSE i
G0(q) == [ip |-> GSkip(q, 0), data |-> <<>>, stack |-> <<>>, def |-> TRUE]
GStep(q, gg, AW(_, _)) == IF ~gg.def THEN gg
                ELSE LET s == StepF(q, Pristine(q), gg.ip, gg.data, gg.stack, FALSE, AW)
                     IN [ip |-> GSkip(q, s.ip), data |-> s.data, stack |-> s.stack, def |-> s.def]

InitMach(q) == /\ p = q /\ ip = 0 /\ ops = Pristine(q) /\ data = <<>> /\ stack = <<>>
               /\ enabled = {} /\ stepping = FALSE /\ mode = "idle" /\ ret = "none" /\ g = G0(q)
Init == (\E q \in 1..NP : InitMach(q)) /\ hist = <<>>

\* expected observation after a call; what the replayer compares field by field
Obs == [ip |-> ip, ops |-> OpsDiff, data |-> data,
        stack |-> stack, enabled |-> enabled, stepping |-> stepping, ret |-> ret,
        cur |-> CurrentBreak, done |-> IsDone,
        views |-> [k \in DOMAIN stack |-> IF MapOK(k) THEN ViewOf(k) ELSE {}]]
HistK == atoi(IOEnv.HISTK)                  \* 0: complete-graph mode, the history is not kept
Rec(call) == hist' = IF HistK = 0 THEN <<>> ELSE Append(hist, [c |-> call, o |-> Obs'])

Cur == StepF(p, ops, ip, data, stack, stepping, AddWord)
\* the machine takes one instruction; the ghost follows unless a break kind (or HALT) was executed
Advance(s, AW(_, _)) ==
  /\ ip' = s.ip /\ data' = s.data /\ stack' = s.stack
  /\ g' = IF InCode(p, ip) /\ ops[ip + 1] \in BreakKind \cup {"HALT"} THEN g ELSE GStep(p, g, AW)

Idle == mode = "idle"

ExecuteSingle == /\ Idle /\ Cur.def /\ Advance(Cur, AddWord) /\ ret' = B2S(Cur.stop)
                 /\ UNCHANGED <<p, ops, enabled, stepping, mode>> /\ Rec(<<"single">>)
Execute == /\ Idle /\ mode' = "run" /\ UNCHANGED <<p, ip, ops, data, stack, enabled, stepping, ret, g, hist>>
Run == /\ mode = "run" /\ Cur.def /\ Advance(Cur, AddWord)
       /\ mode' = (IF Cur.stop THEN "idle" ELSE "run")
       /\ ret' = (IF Cur.stop THEN "none" ELSE ret)
       /\ UNCHANGED <<p, ops, enabled, stepping>>
       /\ IF Cur.stop THEN Rec(<<"execute">>) ELSE UNCHANGED hist

\* setBreakPoint writes the opcode at every listed index, whatever instruction is there
WriteOps(idx, op) == [k \in 1..NI(p) |-> IF (k - 1) \in idx THEN op ELSE ops[k]]
EnabledIdx == UNION {PbIdx(p, loc) : loc \in enabled}
SetBreakPoint(loc, v) ==
  /\ Idle
  /\ IF loc \in Locs(p)
     THEN /\ ret' = "true"
          /\ enabled' = (IF v THEN enabled \cup {loc} ELSE enabled \ {loc})
          /\ ops' = WriteOps(PbIdx(p, loc), IF v THEN "BRK" ELSE "PB")
     ELSE /\ ret' = "false" /\ UNCHANGED <<enabled, ops>>
  /\ UNCHANGED <<p, ip, data, stack, stepping, mode, g>> /\ Rec(<<"bp", loc[1], loc[2], v>>)
ClearBreakpoints == /\ Idle /\ ops' = WriteOps(EnabledIdx, "PB") /\ enabled' = {} /\ ret' = "none"
                    /\ UNCHANGED <<p, ip, data, stack, stepping, mode, g>> /\ Rec(<<"clear">>)
SetSteppingMode(b) == /\ Idle /\ stepping' = b /\ ret' = "none"
                      /\ UNCHANGED <<p, ip, ops, data, stack, enabled, mode, g>> /\ Rec(<<"step", b>>)
\* written as the code writes it, not as "become Init"
Reset == /\ Idle /\ stepping' = FALSE /\ ip' = 0 /\ ops' = WriteOps(EnabledIdx, "PB") /\ enabled' = {}
         /\ data' = <<>> /\ stack' = <<>> /\ ret' = "none" /\ g' = G0(p)
         /\ UNCHANGED <<p, mode>> /\ Rec(<<"reset">>)

\* locations offered to setBreakPoint: every available one plus one that is not available
BogusLoc == <<"nofile", 1>>
Next == \/ ExecuteSingle \/ Execute \/ Run \/ ClearBreakpoints \/ Reset
        \/ \E loc \in Locs(p) \cup {BogusLoc}, v \in BOOLEAN : SetBreakPoint(loc, v)
        \/ \E b \in BOOLEAN : SetSteppingMode(b)
Spec == Init /\ [][Next]_vars

\* ---- invariants ------------------------------------------------------------------------------------
TypeOK == /\ p \in 1..NP /\ ip \in 0..(NI(p) - 1) /\ mode \in {"idle", "run"} /\ stepping \in BOOLEAN
          /\ enabled \subseteq Locs(p) /\ Len(ops) = NI(p)
\* C03: from every reachable state the next instruction is defined: operands inside the addressed frame,
\* targets inside the code, frames present, stack maps valid
NoStuck == Cur.def /\ \A k \in DOMAIN stack : MapOK(k)
\* C05/C17: break opcodes are exactly the sites of enabled lines, everything else is pristine
BrkSync == LET en == EnabledIdx IN
           \A i \in 0..(NI(p) - 1) :
             ops[i + 1] = IF i \in en THEN "BRK" ELSE (IF Ins(p, i).op = "BRK" THEN "PB" ELSE Ins(p, i).op)
\* C05: same instruction path and same memory as the uninterrupted run
Transparent == g.def /\ GSkip(p, ip) = g.ip /\ data = g.data /\ stack = g.stack
\* C06: the next instruction reports a stop exactly when the site table says so
ShouldStop == \/ Ins(p, ip).op = "HALT"
              \/ ip \in SiteIdx(p) /\ (stepping \/ SiteLoc(p, ip) \in enabled)
StopExact == Cur.def => (Cur.stop <=> ShouldStop)
StartNone == ip = 0 => CurrentBreak = NoLoc
\* C19: data is exactly the live frames, contiguous, in call order
RECURSIVE SumSizes(_, _)
SumSizes(st, k) == IF k = 0 THEN 0 ELSE st[k].size + SumSizes(st, k - 1)
FramesExact == /\ Len(data) = SumSizes(stack, Len(stack))
               /\ \A k \in DOMAIN stack : stack[k].base = SumSizes(stack, k - 1)
\* C20
WordsInRange == \A k \in DOMAIN data : data[k] >= 0 /\ data[k] <= MaxWord
\* C16: the activation stack never exceeds the number of routines (definitions + root)
DepthBound == Len(stack) <= Len(Maps(p))
\* C19, unbounded in frame sizes: TheoFrames (whose invariant Apalache proves inductively) is refined by this machine
FR == INSTANCE TheoFrames WITH stack <- [k \in DOMAIN stack |-> [base |-> stack[k].base, size |-> stack[k].size]],
                               dlen <- Len(data), MaxDepth <- 64
FiniteSizes == 0..4096
FramesRefine == FR!Spec
\* C08 as an invariant of the loaded programs
TablesInv == TablesOK(p)

\* C17: reset gives back the initial machine; the program end is absorbing
ResetIsInit == [][Reset => (ip' = 0 /\ ops' = Pristine(p) /\ data' = <<>> /\ stack' = <<>> /\ enabled' = {}
                                /\ stepping' = FALSE /\ g' = G0(p) /\ CurrentBreak' = NoLoc)]_vars
DoneAbsorbing == [][(IsDone /\ (ExecuteSingle \/ Run)) => UNCHANGED mach]_vars

\* ---- bounded-history emission for S->I replay --------------------------------------------------
HistBound == /\ Len(hist) <= HistK
             /\ (Len(hist) = HistK /\ mode = "idle") => PrintT("@@" \o ToJson([p |-> p, h |-> hist]))
\* complete graph: the history is irrelevant to the behaviour
GraphView == <<p, ip, ops, data, stack, enabled, stepping, mode, ret, g>>
=============================================================================
