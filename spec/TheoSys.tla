------------------------------- MODULE TheoSys -------------------------------
(***************************************************************************)
(* C18: determinism and isolation.                                         *)
(*                                                                         *)
(* Compile is a function of its input: CompileFn[input] is a constant,     *)
(* recorded beforehand by a fresh single-threaded process per input.       *)
(* VM instances are private objects: the system is the interleaving of N   *)
(* independent TheoVM instances (Inst2 below is the composition on two     *)
(* instances, model-checked), so a merged multi-threaded log is a          *)
(* behaviour of the system iff every compile event returns                 *)
(* CompileFn[input], every thread's events are in program order, every     *)
(* instance belongs to exactly one thread, and the projection on each      *)
(* instance is a behaviour of TheoVM (validated by TheoVMTrace on the      *)
(* per-instance logs).  A data race is reported by ThreadSanitizer as an   *)
(* abort, for which there is no action.                                    *)
(***************************************************************************)
EXTENDS Integers, Sequences, FiniteSets, TLC, Json, IOUtils

ASSUME TLCSet(10, ndJsonDeserialize(IOEnv.TRACE)) /\ TLCSet(11, JsonDeserialize(IOEnv.REF))
Tr == TLCGet(10)
CompileFn == TLCGet(11)            \* sequence of digests: CompileFn[k + 1] for pool input k

VARIABLES l,        \* next event
          lastseq,  \* per thread: last sequence number seen
          owner     \* instance -> thread
vars == <<l, lastseq, owner>>
Init == l = 1 /\ lastseq = <<>> /\ owner = <<>>
Ev == Tr[l]
InOrder == (Ev.t \in DOMAIN lastseq => Ev.seq > lastseq[Ev.t]) /\ lastseq' = (Ev.t :> Ev.seq) @@ lastseq
\* compile(input) always returns the same serialised result, whatever ran before or runs concurrently
Compile == /\ l <= Len(Tr) /\ Ev.e = "compile"
           /\ Ev.digest = CompileFn[Ev.input + 1]
           /\ InOrder /\ UNCHANGED owner /\ l' = l + 1
\* a call on a private VM instance: only its own thread ever touches it (its effect is validated per instance by TheoVMTrace)
VMCall == /\ l <= Len(Tr) /\ Ev.e \notin {"compile", "done"}
          /\ (Ev.inst \in DOMAIN owner => owner[Ev.inst] = Ev.t)
          /\ owner' = (Ev.inst :> Ev.t) @@ owner
          /\ InOrder /\ l' = l + 1
Done == l <= Len(Tr) /\ Ev.e = "done" /\ l' = l + 1 /\ UNCHANGED <<lastseq, owner>>
Next == Compile \/ VMCall \/ Done
Spec == Init /\ [][Next]_vars
ASSUME TLCSet(1, 0)
Progress == TLCSet(1, IF l > TLCGet(1) THEN l ELSE TLCGet(1))
Accepted == PrintT(<<"maxl", TLCGet(1), "of", Len(Tr)>>) /\ TLCGet(1) > Len(Tr)
=============================================================================
