------------------------------ MODULE TheoParse ------------------------------
(***************************************************************************)
(* C04 (and the generator of C02's inputs, the reject side of C16):        *)
(* the documented LL(1) grammar of parse.cpp's header comment as a         *)
(* push-down automaton, with the built-in id+int / id-int sugar            *)
(* (VALUE -> id VTAIL) and the static rules as semantic markers:           *)
(*   @defname/@param/@defend  program definitions (name, arity), complete  *)
(*                            only at their END - so a body sees earlier   *)
(*                            definitions only, the latest one wins;       *)
(*   @callname/@arg/@callend  RUN target defined earlier, argument count;  *)
(*   @labeldef/@ref           jump targets are labels of the same body;    *)
(*   @int                     literals below 2^31-1 ("big" = one that is   *)
(*                            not).                                        *)
(* BFS over Feed enumerates every viable prefix of <= N tokens, every      *)
(* sentence among them and every one-token extension the automaton         *)
(* refuses; each state is emitted as a case with the expected verdict.     *)
(* Sources with duplicate labels or duplicate parameter names are outside  *)
(* the property's domain (dup flag).                                       *)
(***************************************************************************)
EXTENDS Integers, Sequences, FiniteSets, TLC, Json, IOUtils
N == atoi(IOEnv.PARSEN)
Ids == {"a", "f"}               \* token enumerator; the chunk enumerator also uses "g"
Ints == {"1", "big"}

\* literal rule on digit strings (TLC integers are 32 bit): accepted iff at most 2147483646; "big" stands for one that is not
Digit(c) == CASE c = "0" -> 0 [] c = "1" -> 1 [] c = "2" -> 2 [] c = "3" -> 3 [] c = "4" -> 4
              [] c = "5" -> 5 [] c = "6" -> 6 [] c = "7" -> 7 [] c = "8" -> 8 [] c = "9" -> 9
RECURSIVE LexLE(_, _, _)
LexLE(x, y, i) == IF i > Len(x) THEN TRUE
                  ELSE IF Digit(SubSeq(x, i, i)) < Digit(SubSeq(y, i, i)) THEN TRUE
                  ELSE IF Digit(SubSeq(x, i, i)) > Digit(SubSeq(y, i, i)) THEN FALSE ELSE LexLE(x, y, i + 1)
LitFits(x) == x # "big" /\ (Len(x) < 10 \/ (Len(x) = 10 /\ LexLE(x, "2147483646", 1)))

Kw == {"prog","in","out","do","end","loop","while","neq0","goto","if","eq","then","stop","run","with","comma","semi","colon","assign","plus","minus","junk"}
Toks == {[k |-> "id", t |-> i] : i \in Ids} \cup {[k |-> "int", t |-> i] : i \in Ints} \cup {[k |-> w, t |-> w] : w \in Kw}
Eof == [k |-> "eof", t |-> "eof"]
NTs == {"S","PORTS","OPORTS","ARGS","MARGS","P","STMT","PID","MOREP","VALUE","VTAIL","VARGS","MVARGS"}

\* LL(1) expansion: sequence of symbols replacing nonterminal nt on lookahead kind k ; <<"#err">> if none
Expand(nt, k) ==
  CASE nt = "S" -> IF k = "prog" THEN <<"prog","@defname","PORTS","do","P","end","@defend","S">> ELSE <<"P">>
    [] nt = "PORTS" -> IF k = "in" THEN <<"in","ARGS","OPORTS">> ELSE <<>>
    [] nt = "OPORTS" -> IF k = "out" THEN <<"out","id">> ELSE <<>>
    [] nt = "ARGS" -> <<"@param","MARGS">>
    [] nt = "MARGS" -> IF k = "comma" THEN <<"comma","ARGS">> ELSE <<>>
    [] nt = "P" -> <<"STMT","MOREP">>
    [] nt = "STMT" -> CASE k = "id" -> <<"@idhead","PID">>
                        [] k = "loop" -> <<"loop","id","do","P","end">>
                        [] k = "while" -> <<"while","id","neq0","do","P","end">>
                        [] k = "goto" -> <<"goto","@ref">>
                        [] k = "if" -> <<"if","id","eq","@int","then","goto","@ref">>
                        [] k = "stop" -> <<"stop">>
                        [] OTHER -> <<"#err">>
    [] nt = "PID" -> CASE k = "assign" -> <<"assign","VALUE">>
                       [] k = "colon" -> <<"@labeldef","colon","STMT">>
                       [] OTHER -> <<"#err">>
    [] nt = "MOREP" -> IF k = "semi" THEN <<"semi","P">> ELSE <<>>
    [] nt = "VALUE" -> CASE k = "id" -> <<"id","VTAIL">>
                         [] k = "int" -> <<"@int">>
                         [] k = "run" -> <<"run","@callname","with","VARGS","end","@callend">>
                         [] OTHER -> <<"#err">>
    [] nt = "VTAIL" -> IF k \in {"plus","minus"} THEN <<k,"@int">> ELSE <<>>
    [] nt = "VARGS" -> IF k \in {"id","int","run"} THEN <<"VALUE","@arg","MVARGS">> ELSE <<>>
    [] nt = "MVARGS" -> IF k = "comma" THEN <<"comma","VALUE","@arg","MVARGS">> ELSE <<>>

Ctx0 == [defs |-> <<>>, cur |-> <<>>, ldef |-> {}, lref |-> {}, calls |-> <<>>, last |-> "", ok |-> TRUE, dup |-> FALSE]
Visible(c, name) == {i \in DOMAIN c.defs : c.defs[i].name = name}
Arity(c, name) == c.defs[CHOOSE i \in Visible(c, name) : \A j \in Visible(c, name) : j <= i].ar

\* markers that consume a token
ConsMarker == {"@defname","@param","@idhead","@ref","@int","@callname"}
\* apply a consuming marker to token tok
Consume(m, c, tok) ==
  CASE m = "@defname" -> IF tok.k = "id" THEN [c EXCEPT !.cur = <<[name |-> tok.t, ar |-> 0, ps |-> {}]>>] ELSE [c EXCEPT !.ok = FALSE]
    [] m = "@param" -> IF tok.k = "id" THEN (IF c.cur # <<>> THEN [c EXCEPT !.cur = <<[c.cur[1] EXCEPT !.ar = @ + 1, !.ps = @ \cup {tok.t}]>>, !.dup = @ \/ tok.t \in c.cur[1].ps] ELSE c) ELSE [c EXCEPT !.ok = FALSE]
    [] m = "@idhead" -> [c EXCEPT !.last = tok.t]
    [] m = "@ref" -> IF tok.k = "id" THEN [c EXCEPT !.lref = @ \cup {tok.t}] ELSE [c EXCEPT !.ok = FALSE]
    [] m = "@int" -> IF tok.k = "int" THEN (IF ~LitFits(tok.t) THEN [c EXCEPT !.ok = FALSE] ELSE c) ELSE [c EXCEPT !.ok = FALSE]
    [] m = "@callname" -> IF tok.k = "id" THEN [c EXCEPT !.calls = Append(@, [name |-> tok.t, n |-> 0])] ELSE [c EXCEPT !.ok = FALSE]
\* markers that consume nothing
Silent(m, c) ==
  CASE m = "@labeldef" -> [c EXCEPT !.ldef = @ \cup {c.last}, !.dup = @ \/ c.last \in c.ldef]
    [] m = "@arg" -> [c EXCEPT !.calls = [@ EXCEPT ![Len(@)].n = @ + 1]]
    [] m = "@callend" -> LET cl == c.calls[Len(c.calls)] IN
         [c EXCEPT !.calls = SubSeq(@, 1, Len(@)-1),
                   !.ok = @ /\ Visible(c, cl.name) # {} /\ Arity(c, cl.name) = cl.n]
    [] m = "@defend" -> [c EXCEPT !.defs = Append(@, [name |-> c.cur[1].name, ar |-> c.cur[1].ar]), !.cur = <<>>,
                                  !.ok = @ /\ c.lref \subseteq c.ldef, !.ldef = {}, !.lref = {}]

\* syntactic viability is tracked separately from static ok: syn = FALSE means parse error
RECURSIVE Drive(_,_,_)
Drive(stk, c, tok) ==   \* returns [stk, c, syn]
  IF stk = <<>> THEN [stk |-> stk, c |-> c, syn |-> tok.k = "eof"]
  ELSE LET top == Head(stk) rest == Tail(stk) IN
    IF top \in NTs THEN LET e == Expand(top, tok.k) IN
         IF e = <<"#err">> THEN [stk |-> stk, c |-> c, syn |-> FALSE] ELSE Drive(e \o rest, c, tok)
    ELSE IF top \in ConsMarker THEN
         (IF tok.k \in (IF top = "@int" THEN {"int"} ELSE {"id"}) THEN [stk |-> rest, c |-> Consume(top, c, tok), syn |-> TRUE]
          ELSE [stk |-> stk, c |-> c, syn |-> FALSE])
    ELSE IF SubSeq(top,1,1) = "@" THEN Drive(rest, Silent(top, c), tok)
    ELSE IF top = tok.k THEN [stk |-> rest, c |-> c, syn |-> TRUE] ELSE [stk |-> stk, c |-> c, syn |-> FALSE]

\* finishing: feed eof: all remaining symbols must vanish
Finish(stk, c) == LET d == Drive(stk, c, Eof) IN
   [syn |-> d.syn /\ d.stk = <<>>, c |-> IF d.stk = <<>> THEN [d.c EXCEPT !.ok = @ /\ d.c.lref \subseteq d.c.ldef] ELSE d.c]

VARIABLES toks, stk, ctx, alive, nch     \* nch: chunks fed so far (chunk enumerator)
vars == <<toks, stk, ctx, alive, nch>>
\* with PARSEPRE = "1" the enumeration starts after a fixed prelude that defines program f with one parameter
\* (the replayer prepends its text), so that complete calls and their near misses are within reach of the token bound
Pre == IOEnv.PARSEPRE = "1"
Init == /\ toks = <<>> /\ stk = <<"S">> /\ alive = TRUE /\ nch = 0
        /\ ctx = IF Pre THEN [Ctx0 EXCEPT !.defs = <<[name |-> "f", ar |-> 1]>>] ELSE Ctx0
Feed == /\ alive /\ Len(toks) < N /\ UNCHANGED nch
        /\ \E t \in Toks : LET d == Drive(stk, ctx, t) IN
             /\ toks' = Append(toks, t)
             /\ IF d.syn THEN stk' = d.stk /\ ctx' = d.c /\ alive' = TRUE
                         ELSE stk' = stk /\ ctx' = ctx /\ alive' = FALSE
Spec == Init /\ [][Feed]_vars

\* ---- second enumerator: statement-level chunks, to reach definitions with calls, labels and literals ----------
T(k) == [k |-> k, t |-> k]
Id(x) == [k |-> "id", t |-> x]
Num(x) == [k |-> "int", t |-> x]
CallChunk(name, args) == <<Id("a"), T("assign"), T("run"), Id(name), T("with")>> \o args \o <<T("end")>>
Chunks == {
  <<T("prog"), Id("f"), T("do")>>, <<T("prog"), Id("g"), T("do")>>, <<T("prog"), Id("f"), T("in"), Id("a"), T("do")>>,
  <<T("prog"), Id("g"), T("in"), Id("a"), T("out"), Id("a"), T("do")>>, <<T("prog"), Id("f"), T("in"), Id("a"), T("comma"), Id("g"), T("do")>>,
  <<T("prog"), Id("f"), T("in"), Id("a"), T("comma"), Id("a"), T("do")>>,
  <<T("end")>>, <<T("semi")>>, <<T("stop")>>,
  CallChunk("f", <<>>), CallChunk("g", <<>>), CallChunk("f", <<Num("1")>>), CallChunk("g", <<Id("a")>>),
  CallChunk("f", <<Num("1"), T("comma"), Id("a")>>), CallChunk("a", <<>>),
  CallChunk("f", <<T("run"), Id("g"), T("with"), T("end")>>), CallChunk("g", <<Num("big")>>),
  \* the +/- sugar inside an argument list counts as one argument
  CallChunk("f", <<Id("a"), T("plus"), Num("1")>>), CallChunk("g", <<Id("a"), T("minus"), Num("1"), T("comma"), Id("a")>>),
  <<Id("a"), T("assign"), Num("1")>>, <<Id("a"), T("assign"), Num("big")>>, <<Id("a"), T("assign"), Id("a"), T("plus"), Num("1")>>,
  <<Id("a"), T("assign"), Id("a"), T("minus"), Num("big")>>,
  <<T("goto"), Id("a")>>, <<T("goto"), Id("f")>>, <<Id("a"), T("colon")>>, <<Id("f"), T("colon")>>,
  <<T("if"), Id("a"), T("eq"), Num("1"), T("then"), T("goto"), Id("a")>>, <<T("if"), Id("a"), T("eq"), Num("big"), T("then"), T("goto"), Id("f")>>,
  <<T("loop"), Id("a"), T("do")>>, <<T("while"), Id("a"), T("neq0"), T("do")>> }
\* the reference-focused subset reaches self-, forward- and mutual references between definitions (C16)
RefChunks == {
  <<T("prog"), Id("f"), T("do")>>, <<T("prog"), Id("g"), T("do")>>, <<T("prog"), Id("f"), T("in"), Id("a"), T("do")>>,
  <<T("end")>>, <<T("semi")>>, <<T("stop")>>,
  CallChunk("f", <<>>), CallChunk("g", <<>>), CallChunk("f", <<Num("1")>>), CallChunk("g", <<Id("a")>>) }
ChunkSet == IF IOEnv.PARSECHUNKS = "refs" THEN RefChunks ELSE Chunks
RECURSIVE DriveSeq(_, _, _, _)
\* feed the tokens of a chunk; stops at the first token the automaton refuses
DriveSeq(st, c, ch, i) ==
  IF i > Len(ch) THEN [stk |-> st, c |-> c, syn |-> TRUE, n |-> Len(ch)]
  ELSE LET d == Drive(st, c, ch[i]) IN
       IF d.syn THEN DriveSeq(d.stk, d.c, ch, i + 1) ELSE [stk |-> st, c |-> c, syn |-> FALSE, n |-> i]
FeedChunk == /\ alive /\ nch < N
             /\ \E ch \in ChunkSet : LET d == DriveSeq(stk, ctx, ch, 1) IN
                  /\ toks' = toks \o SubSeq(ch, 1, d.n) /\ nch' = nch + 1
                  /\ IF d.syn THEN stk' = d.stk /\ ctx' = d.c /\ alive' = TRUE
                              ELSE stk' = stk /\ ctx' = ctx /\ alive' = FALSE
CSpec == Init /\ [][FeedChunk]_vars

\* ---- decider: verdicts for given token lists (mutated generated programs) ------------------------------------
GivenToks == JsonDeserialize(IOEnv.PARSECASES)      \* sequence of token sequences [k, t]
DInit == \E i \in DOMAIN GivenToks :
            /\ toks = GivenToks[i] /\ nch = i
            /\ LET d == DriveSeq(<<"S">>, Ctx0, GivenToks[i], 1) IN stk = d.stk /\ ctx = d.c /\ alive = d.syn
DSpec == DInit /\ [][UNCHANGED vars]_vars
Accepted == alive /\ LET f == Finish(stk, ctx) IN f.syn /\ f.c.ok
InDomain == ~ctx.dup
\* Where the first error is reported (extension X03; 0 = not specified here: sentences, whose errors are static ones).
\* A refused token is reported at its own position - except that a sugar operator that is not followed by an integer is
\* itself the offending token (the id+int / id-int rewriting did not apply, so the operator reaches the parser);
\* input cut off by the end of file is reported at the last token.
ErrAt == IF alive THEN (IF Finish(stk, ctx).syn THEN 0 ELSE Len(toks))
         ELSE IF Len(toks) >= 2 /\ stk # <<>> /\ Head(stk) = "@int" /\ toks[Len(toks) - 1].k \in {"plus", "minus"} THEN Len(toks) - 1
         ELSE Len(toks)
DEmit == PrintT("@@" \o ToJson([i |-> nch, alive |-> alive, acc |-> (alive /\ Accepted),
                                 dup |-> (IF alive THEN Finish(stk, ctx).c.dup ELSE ctx.dup)]))
\* one case per reachable state: the token texts ("a","f","g" identifiers, "1"/"big" integers, otherwise the token kind),
\* whether the prefix is still viable, whether it is a sentence obeying the static rules, and the domain flag
Emit == PrintT("@@" \o ToJson([toks |-> [i \in DOMAIN toks |-> toks[i].t], alive |-> alive, acc |-> (alive /\ Accepted),
                                sent |-> (alive /\ Finish(stk, ctx).syn), errat |-> ErrAt,      \* sent: a sentence of the grammar (static rules aside); errat: token-level enumerator only
                                dup |-> (IF alive THEN Finish(stk, ctx).c.dup ELSE ctx.dup)]))
\* counters via TLCSet
Count == /\ (alive /\ Accepted => TLCSet(1, TLCGet(1) + 1))
         /\ (~alive => TLCSet(2, TLCGet(2) + 1))
         /\ (alive /\ ~Accepted => TLCSet(3, TLCGet(3) + 1))
ASSUME TLCSet(1, 0) /\ TLCSet(2, 0) /\ TLCSet(3, 0)
Post == PrintT(<<"sentences", TLCGet(1), "dead", TLCGet(2), "viable-nonsentence", TLCGet(3)>>)
=============================================================================
