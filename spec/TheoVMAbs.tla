------------------------------ MODULE TheoVMAbs ------------------------------
(***************************************************************************)
(* C03 (and C08, C16): structural validity of emitted bytecode.            *)
(*                                                                         *)
(* Two independent formulations over the real compiler's output:           *)
(*  - StaticOK(p): a predicate over the instruction array (static per      *)
(*    program, covers unreachable code too);                               *)
(*  - the abstract machine below: TheoVM with the data abstracted away     *)
(*    (JMPC takes both branches), whose complete state graph is every      *)
(*    control path of the program; AbsSafe must hold in every state.       *)
(* Code shape assumed by the extent derivation (it is what the grammar     *)
(* forces: all definitions precede the root code):                         *)
(*    PREP ; (JMP skip ; body ; RET)* ; root code ; HALT                   *)
(***************************************************************************)
EXTENDS TheoVM

\* ---- routine extents from the code shape ----------------------------------------------------------
RECURSIVE ExtentsFrom(_, _, _)
\* sequence of [lo, hi] (0-based, inclusive) of the routine bodies, in definition order
ExtentsFrom(q, i, acc) ==
  IF InCode(q, i) /\ Ins(q, i).op = "JMP" /\ Ins(q, i).a >= 2 /\ InCode(q, i + Ins(q, i).a - 1)
     /\ Ins(q, i + Ins(q, i).a - 1).op = "RET"
     /\ \A j \in (i + 1)..(i + Ins(q, i).a - 2) : Ins(q, j).op # "RET"
  THEN ExtentsFrom(q, i + Ins(q, i).a, Append(acc, [lo |-> i + 1, hi |-> i + Ins(q, i).a - 1]))
  ELSE [ext |-> acc, root |-> i]
\* TLC re-evaluates definitions on every use, so the derived tables of the chosen program are computed once,
\* in the initial state, and carried in the variable tab (constant along every behaviour)
VARIABLE tab
Shape(q) == tab.shape
RootLo(q) == Shape(q).root
NRout(q) == Len(Shape(q).ext)
\* 0 = root, k = k-th definition
\* routine of an instruction: 0 = root, k = k-th definition, -1 = index 0 and the definition-skipping JMPs
RoutineOf(q, i) == tab.routine[i]
Lo(q, k) == IF k = 0 THEN RootLo(q) ELSE Shape(q).ext[k].lo
Hi(q, k) == IF k = 0 THEN NI(q) - 1 ELSE Shape(q).ext[k].hi
Entry(q, k) == Lo(q, k)

\* ---- call sites: PREP ; ARG* ; EXEC ------------------------------------------------------------------
RECURSIVE ArgsAfter(_, _, _)
ArgsAfter(q, i, acc) == IF InCode(q, i) /\ Ins(q, i).op = "ARG" THEN ArgsAfter(q, i + 1, Append(acc, Ins(q, i))) ELSE [args |-> acc, next |-> i]
\* call site starting at PREP index i (i > 0)
Site0(q, i) == LET aa == ArgsAfter(q, i + 1, <<>>) IN
              [prep |-> Ins(q, i), args |-> aa.args, execAt |-> aa.next,
               ok |-> InCode(q, aa.next) /\ Ins(q, aa.next).op = "EXEC"]
PrepIdx0(q) == {i \in 1..(NI(q) - 1) : Ins(q, i).op = "PREP"}
PrepIdx(q) == tab.prep
Site(q, i) == tab.site[i]
\* frame size / map of a routine = what its call sites declare (the root's: instruction 0)
SitesOfRoutine(q, k) == tab.sites[k]
\* frame size of a routine = what its call sites declare; -1 when it is never called
SizeOf(q, k) == tab.size[k]
\* number of parameters of the k-th definition, when the harness knows it (generated programs), else -1
Arity(q, k) == IF k >= 1 /\ k <= Len(Progs[q].arity) THEN Progs[q].arity[k] ELSE -1

RegIn(q, k, r) == r >= 0 /\ (SizeOf(q, k) = -1 \/ r < SizeOf(q, k))

\* ---- the static predicate ----------------------------------------------------------------------------
InstrOK(q, i) ==
  LET ins == Ins(q, i)  k == RoutineOf(q, i) IN
  CASE ins.op \in {"ADD"} -> k >= 0 /\ RegIn(q, k, ins.a) /\ RegIn(q, k, ins.b)
    [] ins.op = "TEST" -> k >= 0 /\ RegIn(q, k, ins.a) /\ RegIn(q, k, ins.b) /\ RegIn(q, k, ins.c)
    [] ins.op = "CONST" -> k >= 0 /\ RegIn(q, k, ins.a) /\ ins.b >= 0 /\ ins.b <= MaxWord
    [] ins.op = "JMP" -> IF k = -1 THEN TRUE      \* a definition-skipping jump, validated by Shape
                         ELSE Lo(q, k) <= i + ins.a /\ i + ins.a <= Hi(q, k)
    [] ins.op = "JMPC" -> k >= 0 /\ RegIn(q, k, ins.b) /\ Lo(q, k) <= i + ins.a /\ i + ins.a <= Hi(q, k)
    [] ins.op = "RET" -> k >= 1 /\ i = Hi(q, k) /\ RegIn(q, k, ins.a)
    [] ins.op = "PREP" ->
         IF i = 0 THEN ins.a >= 0 /\ ins.b >= 0 /\ ins.b < Len(Maps(q))
         ELSE LET s == Site(q, i) IN
              /\ k >= 0 /\ s.ok /\ ins.a >= 0
              /\ RegIn(q, k, ins.c)                                         \* return target inside the caller frame
              /\ ins.b >= 0 /\ ins.b < Len(Maps(q))
              /\ \E c \in 1..NRout(q) :
                   /\ Ins(q, s.execAt).a = Entry(q, c)                     \* EXEC enters at the entry of a routine
                   /\ (k = 0 \/ c < k)                                    \* ... of an earlier definition (C16)
                   /\ ins.a = SizeOf(q, c)                                \* every call declares the same frame size
                   /\ \A i2 \in SitesOfRoutine(q, c) : Ins(q, i2).b = ins.b /\ Len(Site(q, i2).args) = Len(s.args)
                   /\ (Arity(q, c) # -1 => Len(s.args) = Arity(q, c))
                   /\ \A n \in DOMAIN s.args : s.args[n].a = n - 1 /\ s.args[n].a < ins.a /\ RegIn(q, k, s.args[n].b)
                   \* the stack map of the callee only names registers of its frame
                   /\ \A e \in DOMAIN Maps(q)[ins.b + 1].regs : Maps(q)[ins.b + 1].regs[e].r >= 0 /\ Maps(q)[ins.b + 1].regs[e].r < ins.a
    [] ins.op = "ARG" -> \E j \in PrepIdx(q) : Site(q, j).ok /\ j < i /\ i < Site(q, j).execAt   \* only inside a call sequence
    [] ins.op = "EXEC" -> \E j \in PrepIdx(q) : Site(q, j).ok /\ Site(q, j).execAt = i
    [] ins.op \in {"PB", "BRK", "HALT"} -> TRUE
    [] OTHER -> FALSE
StaticOK(q) ==
  /\ NI(q) >= 2 /\ Ins(q, 0).op = "PREP" /\ Ins(q, NI(q) - 1).op = "HALT"
  /\ RootLo(q) <= NI(q) - 1
  /\ NRout(q) + 1 = Len(Maps(q))                      \* one stack map per definition plus the root's
  /\ \A e \in DOMAIN Maps(q)[Ins(q, 0).b + 1].regs : Maps(q)[Ins(q, 0).b + 1].regs[e].r < Ins(q, 0).a
  /\ \A i \in 0..(NI(q) - 1) : InstrOK(q, i)
StaticInv == StaticOK(p)

\* ---- the abstract machine: all control paths ------------------------------------------------------------
VARIABLES aip, astack          \* frames [size, ra, map, rt]
avars == <<p, aip, astack, tab>>

\* the tables of program q, built bottom-up without reference to the variable tab
MkTab(q) ==
  LET sh == ExtentsFrom(q, 1, <<>>)
      nr == Len(sh.ext)
      rout == [i \in 0..(NI(q) - 1) |->
                 IF i >= sh.root THEN 0
                 ELSE IF \E k \in 1..nr : sh.ext[k].lo <= i /\ i <= sh.ext[k].hi
                      THEN CHOOSE k \in 1..nr : sh.ext[k].lo <= i /\ i <= sh.ext[k].hi ELSE -1]
      prep == PrepIdx0(q)
      site == [i \in prep |-> Site0(q, i)]
      sites == [k \in 1..nr |-> {i \in prep : site[i].ok /\ Ins(q, site[i].execAt).a = sh.ext[k].lo}]
      size == [k \in 0..nr |-> IF k = 0 THEN Ins(q, 0).a
                                ELSE IF sites[k] = {} THEN -1 ELSE Ins(q, CHOOSE i \in sites[k] : TRUE).a]
  IN [shape |-> sh, routine |-> rout, prep |-> prep, site |-> site, sites |-> sites, size |-> size]

AInit == /\ \E q \in 1..NP : p = q /\ tab = MkTab(q)
         /\ aip = 0 /\ astack = <<>>
         \* the concrete machine's variables are not used here
         /\ ip = 0 /\ ops = <<>> /\ data = <<>> /\ stack = <<>> /\ enabled = {} /\ stepping = FALSE /\ mode = "idle"
         /\ ret = "none" /\ g = [ip |-> 0, data |-> <<>>, stack |-> <<>>, def |-> TRUE] /\ hist = <<>>
ATop == astack[Len(astack)]
AReg(fr, r) == r >= 0 /\ r < fr.size
\* C03: every access of the instruction at aip stays inside the frame it addresses
AbsSafe ==
  LET ins == Ins(p, aip)  d == Len(astack) IN
  /\ InCode(p, aip)
  /\ CASE ins.op \in {"ADD"} -> d >= 1 /\ AReg(ATop, ins.a) /\ AReg(ATop, ins.b)
       [] ins.op = "TEST" -> d >= 1 /\ AReg(ATop, ins.a) /\ AReg(ATop, ins.b) /\ AReg(ATop, ins.c)
       [] ins.op = "CONST" -> d >= 1 /\ AReg(ATop, ins.a)
       [] ins.op = "JMP" -> InCode(p, aip + ins.a)
       [] ins.op = "JMPC" -> d >= 1 /\ AReg(ATop, ins.b) /\ InCode(p, aip + ins.a) /\ InCode(p, aip + 1)
       [] ins.op = "PREP" -> ins.a >= 0 /\ ins.b >= 0 /\ ins.b < Len(Maps(p)) /\ (d >= 1 => AReg(ATop, ins.c))
                             /\ \A e \in DOMAIN Maps(p)[ins.b + 1].regs : Maps(p)[ins.b + 1].regs[e].r < ins.a
       [] ins.op = "ARG" -> d >= 2 /\ AReg(ATop, ins.a) /\ AReg(astack[d - 1], ins.b)
       [] ins.op = "EXEC" -> d >= 1 /\ InCode(p, ins.a)
       [] ins.op = "RET" -> d >= 2 /\ AReg(ATop, ins.a) /\ AReg(astack[d - 1], ATop.rt) /\ InCode(p, ATop.ra)
       [] OTHER -> TRUE
\* C16: no call cycle, so the depth never exceeds the number of stack maps
AbsDepth == Len(astack) <= Len(Maps(p))
ANext ==
  LET ins == Ins(p, aip)  d == Len(astack) IN
  /\ AbsSafe /\ AbsDepth /\ UNCHANGED <<p, vars, tab>>
  /\ CASE ins.op \in {"PB", "BRK", "ADD", "TEST", "CONST", "ARG"} -> aip' = aip + 1 /\ UNCHANGED astack
       [] ins.op = "HALT" -> UNCHANGED <<aip, astack>>
       [] ins.op = "JMP" -> aip' = aip + ins.a /\ UNCHANGED astack
       [] ins.op = "JMPC" -> aip' \in {aip + ins.a, aip + 1} /\ UNCHANGED astack
       [] ins.op = "PREP" -> aip' = aip + 1 /\ astack' = Append(astack, [size |-> ins.a, ra |-> -1, map |-> ins.b, rt |-> ins.c])
       [] ins.op = "EXEC" -> aip' = ins.a /\ astack' = [astack EXCEPT ![d].ra = aip + 1]
       [] ins.op = "RET" -> aip' = ATop.ra /\ astack' = SubSeq(astack, 1, d - 1)
ASpec == AInit /\ [][ANext]_<<avars, vars>>
\* static evaluation only: one state per program
SSpec == AInit /\ [][FALSE]_<<avars, vars>>

\* ---- C08: every available location is a line on which a token of the program text stands --------------
\* (the sequences are bound once per evaluation: every textual reference to Progs deserialises the JSON file again)
TokLines(q) == LET t == Progs[q].toklines IN {<<t[i][1], t[i][2]>> : i \in DOMAIN t}
LocsRealInv == \A loc \in Locs(p) : loc \in TokLines(p)
\* the public list of available locations (Program::getAvailableBreakpoints) is exactly the domain of the location table
Avail(q) == LET t == Progs[q].avail IN {<<t[i][1], t[i][2]>> : i \in DOMAIN t}
AvailInv == Avail(p) = Locs(p)
AView == <<p, aip, astack>>
=============================================================================
