----------------------------- MODULE TheoPattern -----------------------------
(***************************************************************************)
(* C12: is a macro pattern recognisable deterministically on a prefix of   *)
(* the input with one token of lookahead?  Canonical LR(1) collection (the *)
(* construction of TheoLR1, here over an indexed rule sequence for speed)  *)
(* for the macro engine's slot grammar plus MACRO -> pattern, conflicts in *)
(* prefix mode (an item whose lookahead is the end marker reduces on       *)
(* every terminal).  All patterns up to a bounded length over the five     *)
(* slot kinds and six literal kinds are enumerated and their verdicts      *)
(* emitted for the S->I replay into the real macro engine.                 *)
(***************************************************************************)
EXTENDS Integers, Sequences, FiniteSets, TLC, Json, IOUtils

NT == {"ID","INT","VALUE","ARGS","P","STATEMENT","ATOMIC","MACRO","S0"}
BaseRules == <<
 [l |-> "ID", r |-> <<"id">>],
 [l |-> "INT", r |-> <<"int">>],
 [l |-> "VALUE", r |-> <<"ID">>],
 [l |-> "VALUE", r |-> <<"INT">>],
 [l |-> "VALUE", r |-> <<"run","ID","with","ARGS","end">>],
 [l |-> "ARGS", r |-> <<"VALUE">>],
 [l |-> "ARGS", r |-> <<"ARGS",",","VALUE">>],
 [l |-> "P", r |-> <<"P",";","STATEMENT">>],
 [l |-> "P", r |-> <<"STATEMENT">>],
 [l |-> "STATEMENT", r |-> <<"ID",":","ATOMIC">>],
 [l |-> "STATEMENT", r |-> <<"ATOMIC">>],
 [l |-> "ATOMIC", r |-> <<"ID",":=","VALUE">>],
 [l |-> "ATOMIC", r |-> <<"loop","ID","do","P","end">>],
 [l |-> "ATOMIC", r |-> <<"while","ID","neq0","do","P","end">>],
 [l |-> "ATOMIC", r |-> <<"goto","ID">>],
 [l |-> "ATOMIC", r |-> <<"if","ID","=","INT","then","goto","ID">>],
 [l |-> "ATOMIC", r |-> <<"stop">>] >>

Slots == {"ID","INT","VALUE","ARGS","P"}
Lits == {"+", ";", ",", "end", "id", "("}
PatSyms == Slots \cup Lits
Eof == "$"

VARIABLES pat, verdict
vars == <<pat, verdict>>

Rules(p) == BaseRules \o << [l |-> "MACRO", r |-> p], [l |-> "S0", r |-> <<"MACRO">>] >>
Terms(R) == (UNION {{R[k].r[j] : j \in DOMAIN R[k].r} : k \in DOMAIN R} \ NT) \cup {Eof}

\* FIRST sets of nonterminals (no epsilon rules in this grammar except possibly empty pattern; handle nullable generally)
RECURSIVE NullFix(_,_)
NullFix(R, N) == LET N2 == N \cup {R[k].l : k \in {k \in DOMAIN R : \A j \in DOMAIN R[k].r : R[k].r[j] \in N}}
                 IN IF N2 = N THEN N ELSE NullFix(R, N2)
Nullable(R) == NullFix(R, {})

RECURSIVE FirstFix(_,_,_)
FirstFix(R, Nl, F) ==
  LET FS(sym) == IF sym \in NT THEN F[sym] ELSE {sym}
      Contrib(k) == UNION { FS(R[k].r[j]) : j \in {j \in DOMAIN R[k].r : \A i \in 1..(j-1) : R[k].r[i] \in Nl} }
      F2 == [n \in NT |-> F[n] \cup UNION {Contrib(k) : k \in {k \in DOMAIN R : R[k].l = n}}]
  IN IF F2 = F THEN F ELSE FirstFix(R, Nl, F2)
First(R) == FirstFix(R, Nullable(R), [n \in NT |-> {}])

\* FIRST of a sequence beta followed by terminal a
FirstSeq(F, Nl, beta, a) ==
  LET FS(sym) == IF sym \in NT THEN F[sym] ELSE {sym}
      idx == {j \in DOMAIN beta : \A i \in 1..(j-1) : beta[i] \in Nl}
  IN UNION {FS(beta[j]) : j \in idx} \cup (IF \A i \in DOMAIN beta : beta[i] \in Nl THEN {a} ELSE {})

NextSym(R, it) == IF it.d < Len(R[it.k].r) THEN R[it.k].r[it.d+1] ELSE "<none>"
Rest(R, it) == SubSeq(R[it.k].r, it.d+2, Len(R[it.k].r))

RECURSIVE Closure(_,_,_,_)
Closure(R, F, Nl, I) ==
  LET new == UNION { LET B == NextSym(R, it) IN
                     IF B \in NT
                     THEN {[k |-> k, d |-> 0, a |-> la] : k \in {k \in DOMAIN R : R[k].l = B}, la \in FirstSeq(F, Nl, Rest(R, it), it.a)}
                     ELSE {} : it \in I }
  IN IF new \subseteq I THEN I ELSE Closure(R, F, Nl, I \cup new)

Goto(R, F, Nl, I, X) == Closure(R, F, Nl, {[it EXCEPT !.d = it.d + 1] : it \in {it \in I : NextSym(R, it) = X}})

RECURSIVE Collect(_,_,_,_,_)
Collect(R, F, Nl, C, frontier) ==
  IF frontier = {} THEN C
  ELSE LET succ == {Goto(R, F, Nl, I, X) : I \in frontier, X \in (UNION {{NextSym(R, it) : it \in I} : I \in frontier}) \ {"<none>"} } \ {{}}
           new == succ \ C
       IN Collect(R, F, Nl, C \cup new, new)

Conflict(R, T, I, prefix) ==
  LET shifts == {NextSym(R, it) : it \in I} \cap T
      reds == {it \in I : it.d = Len(R[it.k].r)}
      Las(it) == IF prefix /\ it.a = Eof THEN T ELSE {it.a}
  IN \/ \E it \in reds : Las(it) \cap shifts # {}
     \/ \E i1, i2 \in reds : i1.k # i2.k /\ Las(i1) \cap Las(i2) # {}

Verdict(p) ==
  LET R == Rules(p)  Nl == Nullable(R)  F == First(R)  T == Terms(R)
      I0 == Closure(R, F, Nl, {[k |-> Len(R), d |-> 0, a |-> Eof]})
      C == Collect(R, F, Nl, {I0}, {I0})
  IN [states |-> Cardinality(C), conflict |-> \E I \in C : Conflict(R, T, I, TRUE)]

PatLen == atoi(IOEnv.PATLEN)
\* patterns of length PatLen; for the longest length only a slice (PATMOD / PATREM) in the quick tier
Pats == IF PatLen = 1 THEN {<<a>> : a \in PatSyms}
        ELSE IF PatLen = 2 THEN {<<a, b>> : a, b \in PatSyms}
        ELSE IF PatLen = 3 THEN {<<a, b, c>> : a, b, c \in PatSyms}
        ELSE IF PatLen = 4 THEN {<<a, b, c, d>> : a, b, c, d \in PatSyms}
        ELSE {<<a, b, c, d, e>> : a, b, c, d, e \in PatSyms}
Code(x) == CHOOSE i \in 1..11 : <<"ID", "INT", "VALUE", "ARGS", "P", "+", ";", ",", "end", "id", "(">>[i] = x
RECURSIVE Hash(_, _)
Hash(p, i) == IF i > Len(p) THEN 0 ELSE (Code(p[i]) * (i * 7 + 3) + Hash(p, i + 1)) % 9973
PMod == atoi(IOEnv.PATMOD)
PRem == atoi(IOEnv.PATREM)
Init == pat \in {q \in Pats : Hash(q, 1) % PMod = PRem} /\ verdict = [states |-> 0, conflict |-> FALSE]
Next == /\ verdict = [states |-> 0, conflict |-> FALSE] /\ verdict' = Verdict(pat) /\ UNCHANGED pat
        /\ PrintT("@@" \o ToJson([pat |-> pat, conflict |-> verdict'.conflict, states |-> verdict'.states]))
Spec == Init /\ [][Next]_vars
=============================================================================
