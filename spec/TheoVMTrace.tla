----------------------------- MODULE TheoVMTrace -----------------------------
(***************************************************************************)
(* Trace validation (implementation -> specification) for TheoVM.          *)
(* The trace is an ndjson log written by `th vmtrace`: one event per VM    *)
(* API call, logged after the call returned, with the arguments, the       *)
(* return value and the projected state (through the THEO_VERIF hooks).    *)
(* Several executions are concatenated; a "load" event starts a fresh      *)
(* machine on program p.  Every base-module invariant is evaluated in      *)
(* every state of the validated behaviour.                                 *)
(*                                                                         *)
(* Acceptance: the behaviour consumed the whole log (l = Len+1), detected  *)
(* as a violation of NotAccepted; execute() takes unlogged Run steps.      *)
(***************************************************************************)
EXTENDS TheoVM

\* read once (register 10), not on every reference to Tr; validation runs with one worker
ASSUME TLCSet(10, ndJsonDeserialize(IOEnv.TRACE))
Tr == TLCGet(10)
\* which logged fields are bound (so that each property decides with its own observables)
Fields == IOEnv.FIELDS
Has(ch) == \E i \in 1..Len(Fields) : SubSeq(Fields, i, i) = ch

VARIABLES l,      \* next event to explain
          ovf     \* C20: values observed for overflowing additions, <<v, c>> -> value
tvars == <<vars, l, ovf>>

Ev == Tr[l]
IsEvent(e) == l <= Len(Tr) /\ Tr[l].e = e

SeqToSet(s) == {s[i] : i \in DOMAIN s}
\* the logged post-state agrees with the specification's post-state
StackAgrees(ev) ==
  /\ Len(ev.stack) = Len(stack')
  /\ \A k \in DOMAIN stack' :
       /\ ev.stack[k].size = stack'[k].size /\ ev.stack[k].map = stack'[k].map
       /\ ev.stack[k].rt = stack'[k].rt
       \* the return address is meaningful only once EXEC has entered the frame (-1 = not yet set in the specification);
       \* what the implementation keeps there before is not observable and not constrained
       /\ (stack'[k].ra # -1 => ev.stack[k].ra = stack'[k].ra)
       /\ (Has("g") => ev.stack[k].base = stack'[k].base)
       \* the words of the frame, wherever the implementation keeps them
       /\ ev.stack[k].words = SubSeq(data', stack'[k].base + 1, stack'[k].base + stack'[k].size)
PostAgreesR(ev, withRet) ==
  /\ ev.ip = ip'
  /\ (Has("o") => {<<ev.ops[i][1], ev.ops[i][2]>> : i \in DOMAIN ev.ops} = OpsDiff')
  /\ (Has("s") => StackAgrees(ev))
  /\ (Has("g") => ev.datalen = Len(data'))
  /\ (Has("e") => {<<ev.enabled[i][1], ev.enabled[i][2]>> : i \in DOMAIN ev.enabled} = enabled')
  /\ (Has("e") => ev.stepping = stepping')
  /\ ((Has("r") /\ withRet) => ev.ret = ret')
  /\ (Has("c") => <<ev.cur[1], ev.cur[2]>> = CurrentBreak' /\ ev.done = IsDone')
  /\ (Has("v") => /\ Len(ev.views) = Len(stack')
                  /\ \A k \in DOMAIN stack' : MapOK(k)' =>
                       {<<ev.views[k][i][1], ev.views[k][i][2]>> : i \in DOMAIN ev.views[k]} = ViewOf(k)')

PostAgrees(ev) == PostAgreesR(ev, TRUE)

\* C20: an overflowing addition may store any in-range value, but always the same one for the same operands
AWT(v, c) == IF Overflows(v, c)
             THEN (IF <<v, c>> \in DOMAIN ovf THEN ovf[<<v, c>>] ELSE Ev.addres)
             ELSE AddWord(v, c)
CurT == StepF(p, ops, ip, data, stack, stepping, AWT)
OvfNow == /\ InCode(p, ip) /\ ops[ip + 1] = "ADD" /\ Len(stack) >= 1
          /\ LET top == stack[Len(stack)] ins == Ins(p, ip) IN
               /\ ins.b >= 0 /\ top.base + ins.b < Len(data)
               /\ Overflows(data[top.base + ins.b + 1], ins.c)
OvfKey == LET top == stack[Len(stack)] ins == Ins(p, ip) IN <<data[top.base + ins.b + 1], ins.c>>

TInit == /\ l = 1 /\ ovf = <<>> /\ hist = <<>>
         /\ IsEvent("load") /\ InitMach(Tr[1].p)
\* a new execution starts: fresh machine on program Ev.p (the harness constructs a new VM)
TLoad == /\ IsEvent("load") /\ l > 1 /\ Idle
         /\ p' = Ev.p /\ ip' = 0 /\ ops' = Pristine(Ev.p) /\ data' = <<>> /\ stack' = <<>> /\ enabled' = {}
         /\ stepping' = FALSE /\ mode' = "idle" /\ ret' = "none" /\ g' = G0(Ev.p) /\ hist' = <<>>
         /\ l' = l + 1 /\ UNCHANGED ovf
\* the first load is consumed by TInit's successor
TFirst == /\ l = 1 /\ IsEvent("load") /\ l' = 2 /\ UNCHANGED <<vars, ovf>>

TSingle == /\ IsEvent("single") /\ Idle /\ l > 1
           /\ CurT.def /\ Advance(CurT, AWT) /\ ret' = B2S(CurT.stop)
           /\ (OvfNow => Ev.addres \in 0..MaxWord)
           /\ ovf' = IF OvfNow /\ OvfKey \notin DOMAIN ovf THEN ovf @@ (OvfKey :> Ev.addres) ELSE ovf
           /\ UNCHANGED <<p, ops, enabled, stepping, mode, hist>>
           /\ PostAgrees(Ev) /\ l' = l + 1
TExecuteBegin == /\ IsEvent("execute") /\ Idle /\ l > 1 /\ Execute /\ UNCHANGED <<l, ovf>>
\* inside execute() no instruction is logged: an overflowing addition takes the value already observed for the same operands,
\* otherwise one of the candidate semantics (saturate, zero, wrap); the logged post-state of the call prunes the wrong ones
OvfCands(v, c) == {MaxWord, 0, v - (MaxWord - c) - 1}
TRun == /\ mode = "run" /\ Cur.def
        /\ \E val \in (IF OvfNow /\ OvfKey \notin DOMAIN ovf THEN OvfCands(OvfKey[1], OvfKey[2]) ELSE {0}) :
             LET AWR(v, c) == IF Overflows(v, c) THEN (IF <<v, c>> \in DOMAIN ovf THEN ovf[<<v, c>>] ELSE val) ELSE AddWord(v, c)
                 st == StepF(p, ops, ip, data, stack, stepping, AWR)
             IN /\ Advance(st, AWR)
                /\ mode' = (IF st.stop THEN "idle" ELSE "run")
                /\ ret' = (IF st.stop THEN "none" ELSE ret)
                /\ ovf' = IF OvfNow /\ OvfKey \notin DOMAIN ovf THEN ovf @@ (OvfKey :> val) ELSE ovf
        /\ UNCHANGED <<p, ops, enabled, stepping, hist>>
        /\ IF mode' = "idle" THEN PostAgrees(Ev) /\ l' = l + 1 ELSE UNCHANGED l
TSetBP == /\ IsEvent("bp") /\ l > 1 /\ SetBreakPoint(<<Ev.file, Ev.line>>, Ev.v)
          /\ PostAgrees(Ev) /\ l' = l + 1 /\ UNCHANGED ovf
TClear == /\ IsEvent("clear") /\ l > 1 /\ ClearBreakpoints /\ PostAgrees(Ev) /\ l' = l + 1 /\ UNCHANGED ovf
TStep == /\ IsEvent("step") /\ l > 1 /\ SetSteppingMode(Ev.v) /\ PostAgrees(Ev) /\ l' = l + 1 /\ UNCHANGED ovf
TReset == /\ IsEvent("reset") /\ l > 1 /\ Reset /\ PostAgrees(Ev) /\ l' = l + 1 /\ UNCHANGED ovf
\* getters only: nothing may have changed
TInspect == /\ IsEvent("inspect") /\ l > 1 /\ Idle /\ UNCHANGED <<vars, ovf>> /\ PostAgreesR(Ev, FALSE) /\ l' = l + 1

TNext == TFirst \/ TLoad \/ TSingle \/ TExecuteBegin \/ TRun \/ TSetBP \/ TClear \/ TStep \/ TReset \/ TInspect
TSpec == TInit /\ [][TNext]_tvars

NotAccepted == l <= Len(Tr)
\* progress register for rejection reports (workers = 1)
\* acceptance without an error trace: register 1 holds the furthest event reached (one worker)
ASSUME TLCSet(1, 0)
Progress == TLCSet(1, IF l > TLCGet(1) THEN l ELSE TLCGet(1))
Accepted == PrintT(<<"maxl", TLCGet(1), "of", Len(Tr)>>) /\ TLCGet(1) > Len(Tr)
=============================================================================
