----------------------------- MODULE TheoVMCore -----------------------------
(***************************************************************************)
(* The instruction semantics of the libtheo bytecode machine as pure       *)
(* operators (no variables, no input): shared by TheoVM (debugger state    *)
(* machine over the real compiler output) and TheoRefine (ideal machine    *)
(* on the real bytecode against the source semantics).                     *)
(***************************************************************************)
EXTENDS Integers, Sequences
WordMax == 2147483647                        \* 2^31 - 1

\* ---- word arithmetic (C20) ---------------------------------------------------------------------
Overflows(v, c) == c > 0 /\ v > WordMax - c
AddWord(v, c) == IF c <= 0 THEN (IF v + c > 0 THEN v + c ELSE 0)
                 ELSE IF v <= WordMax - c THEN v + c ELSE WordMax   \* saturating; never forms an out-of-range sum

\* ---- one instruction, as a function of the machine state -----------------------------------------
\* opsq: current opcodes (only break kinds ever differ from the pristine code); operands always come
\* from the pristine code, as in the VM.  AW(v, c) is the addition used (trace specs bind overflow values).
Zeros(n) == [k \in 1..n |-> 0]
B2S(b) == IF b THEN "true" ELSE "false"
StepP(code, opsq, ip, data, stack, stp, AW(_, _)) ==
  LET ins == code[ip + 1]
      op == opsq[ip + 1]
      d == Len(stack)
      top == stack[d]
      RegOK(fr, r) == r >= 0 /\ r < fr.size /\ fr.base + r < Len(data)
      W(fr, r) == data[fr.base + r + 1]
      Bad == [def |-> FALSE, ip |-> ip, data |-> data, stack |-> stack, stop |-> FALSE]
      R(nip, nd, ns, s) == IF (nip >= 0 /\ nip < Len(code)) THEN [def |-> TRUE, ip |-> nip, data |-> nd, stack |-> ns, stop |-> s] ELSE Bad
  IN
  IF ~(ip >= 0 /\ ip < Len(code)) THEN Bad ELSE
  CASE op = "PB" -> R(ip + 1, data, stack, stp)
    [] op = "BRK" -> R(ip + 1, data, stack, TRUE)
    [] op = "HALT" -> R(ip, data, stack, TRUE)
    [] op = "ADD" -> IF d >= 1 /\ RegOK(top, ins.a) /\ RegOK(top, ins.b)
                     THEN R(ip + 1, [data EXCEPT ![top.base + ins.a + 1] = AW(W(top, ins.b), ins.c)], stack, FALSE) ELSE Bad
    [] op = "TEST" -> IF d >= 1 /\ RegOK(top, ins.a) /\ RegOK(top, ins.b) /\ RegOK(top, ins.c)
                      THEN R(ip + 1, [data EXCEPT ![top.base + ins.a + 1] = IF W(top, ins.b) = W(top, ins.c) THEN 0 ELSE 1], stack, FALSE) ELSE Bad
    [] op = "CONST" -> IF d >= 1 /\ RegOK(top, ins.a)
                       THEN R(ip + 1, [data EXCEPT ![top.base + ins.a + 1] = ins.b], stack, FALSE) ELSE Bad
    [] op = "JMP" -> R(ip + ins.a, data, stack, FALSE)
    [] op = "JMPC" -> IF d >= 1 /\ RegOK(top, ins.b)
                      THEN R(IF W(top, ins.b) = 0 THEN ip + ins.a ELSE ip + 1, data, stack, FALSE) ELSE Bad
    [] op = "PREP" -> IF ins.a >= 0
                      THEN R(ip + 1, data \o Zeros(ins.a),
                             Append(stack, [base |-> Len(data), size |-> ins.a, rt |-> ins.c, ra |-> -1, map |-> ins.b]), FALSE)
                      ELSE Bad
    [] op = "ARG" -> IF d >= 2 /\ RegOK(top, ins.a) /\ RegOK(stack[d - 1], ins.b)
                     THEN R(ip + 1, [data EXCEPT ![top.base + ins.a + 1] = W(stack[d - 1], ins.b)], stack, FALSE) ELSE Bad
    [] op = "EXEC" -> IF d >= 1 THEN R(ins.a, data, [stack EXCEPT ![d].ra = ip + 1], FALSE) ELSE Bad
    [] op = "RET" -> IF d >= 2 /\ RegOK(top, ins.a) /\ RegOK(stack[d - 1], top.rt)
                     THEN R(top.ra,
                            \* the caller's word is written, then the callee's frame is released (C19)
                            SubSeq([data EXCEPT ![stack[d - 1].base + top.rt + 1] = W(top, ins.a)], 1, top.base),
                            SubSeq(stack, 1, d - 1), FALSE)
                     ELSE Bad
    [] OTHER -> Bad
=============================================================================
