------------------------------- MODULE TheoLex -------------------------------
(***************************************************************************)
(* The scanner as a maximal-munch tokeniser over characters (C14).         *)
(*                                                                         *)
(* A text is a sequence of one-character strings; "HI", "CT" and "NUL"     *)
(* stand for one byte >= 0x80, one control byte and the zero byte (a byte  *)
(* like any other: an unknown character).  The rule table is a hand        *)
(* transcription of the vocabulary of lexer.l frozen at the pinned commit  *)
(* (it is deliberately NOT derived from lexer.l by a script: a change of   *)
(* lexer.l must show up as a deviation).  NextTok picks the longest match, *)
(* the earliest rule on ties (flex semantics); a token's line is the line  *)
(* on which it ends.                                                       *)
(***************************************************************************)
EXTENDS Integers, Sequences, FiniteSets, TLC, Json, IOUtils

Chars(s) == [i \in 1..Len(s) |-> SubSeq(s, i, i)]
SetOf(s) == {SubSeq(s, i, i) : i \in 1..Len(s)}
Lower == SetOf("abcdefghijklmnopqrstuvwxyz")
Upper == SetOf("ABCDEFGHIJKLMNOPQRSTUVWXYZ")
Digit == SetOf("0123456789")
IdStart == Lower \cup Upper \cup {"_"}
IdChar == IdStart \cup Digit
Ws == {" ", "\t", "\n"}

Sp(strs) == {Chars(x) : x \in strs}
Lit(name, strs) == [n |-> name, k |-> "lit", sp |-> Sp(strs), fc |-> {SubSeq(x, 1, 1) : x \in strs}]
\* in the order of lexer.l (the order decides ties)
RuleTable == <<
 [n |-> "ws", k |-> "ws"],
 Lit("PAREN_OPEN", {"("}), Lit("PAREN_CLOSE", {")"}), Lit("ARGSEP", {","}), Lit("PROGSEP", {";"}), Lit("LABELDEC", {":"}),
 Lit("ASSIGN", {":="}), Lit("NEQ_ZERO", {"!= 0"}), Lit("EQ", {"="}),
 Lit("RUN", {"RUN", "Run", "run"}), Lit("WITH", {"WITH", "With", "with"}), Lit("DO", {"DO", "do", "Do"}),
 Lit("LOOP", {"LOOP", "Loop", "loop"}), Lit("WHILE", {"WHILE", "While", "while"}), Lit("GOTO", {"GOTO", "Goto", "goto"}),
 Lit("IF", {"IF", "If", "if"}), Lit("THEN", {"THEN", "Then", "then"}), Lit("STOP", {"STOP", "Stop", "stop"}),
 Lit("END", {"END", "End", "end"}), Lit("PROGRAM", {"PROGRAM", "Program", "program", "PROG", "Prog", "prog"}),
 Lit("IN", {"IN", "In", "in"}), Lit("OUT", {"OUT", "Out", "out"}), Lit("INCLUDE", {"INCLUDE", "Include", "include"}),
 [n |-> "FNAME", k |-> "fname"],
 Lit("DEFINE", {"DEFINE", "Define", "Def", "define", "def"}), Lit("AS", {"AS", "As", "as"}),
 Lit("PRIORITY", {"PRIORITY", "Priority", "priority", "PRIO", "Prio", "prio"}),
 Lit("END_DEFINE", {"END DEFINE", "End Define", "end define", "ENDDEF", "Enddef", "enddef"}),
 Lit("PROG_TEMP", {"<PROGRAM>", "<Program>", "<program>", "<PROG>", "<Prog>", "<prog>", "<P>", "<p>"}),
 Lit("VALUE_TEMP", {"<VALUE>", "<Value>", "<value>", "<VAL>", "<Val>", "<val>", "<V>", "<v>"}),
 Lit("ID_TEMP", {"<ID>", "<id>"}), Lit("INT_TEMP", {"<INT>", "<Int>", "<int>"}),
 [n |-> "INSERTION", k |-> "sigil", c |-> "$"], [n |-> "TEMP_VAL", k |-> "sigil", c |-> "#"],
 [n |-> "ID", k |-> "id"], [n |-> "INT", k |-> "int"],
 Lit("ARGS_TEMP", {"<ARGS>", "<Args>", "<args>", "<A>", "<a>"}),
 [n |-> "comment", k |-> "comment"],
 [n |-> "NV_ID", k |-> "any"] >>

At(s, i) == IF i <= Len(s) THEN s[i] ELSE "<end>"
RECURSIVE RunLen(_, _, _)
RunLen(s, i, C) == IF At(s, i) \in C THEN 1 + RunLen(s, i + 1, C) ELSE 0
IntLen(s, i) == IF At(s, i) = "0" THEN 1 ELSE IF At(s, i) \in Digit THEN RunLen(s, i, Digit) ELSE 0
RECURSIVE UntilQuote(_, _)
UntilQuote(s, i) == IF i > Len(s) THEN 0 ELSE IF s[i] = "\"" THEN i ELSE UntilQuote(s, i + 1)
RECURSIVE UntilNl(_, _)
UntilNl(s, i) == IF i > Len(s) \/ s[i] = "\n" THEN i ELSE UntilNl(s, i + 1)
Max(S) == IF S = {} THEN 0 ELSE CHOOSE m \in S : \A x \in S : x <= m

\* longest match of rule r at position i (0 = no match)
MLen(r, s, i) ==
  CASE r.k = "lit" -> IF At(s, i) \notin r.fc THEN 0
                      ELSE Max({Len(sp) : sp \in {sp \in r.sp : i + Len(sp) - 1 <= Len(s) /\ SubSeq(s, i, i + Len(sp) - 1) = sp}})
    [] r.k = "ws" -> RunLen(s, i, Ws)
    [] r.k = "fname" -> IF At(s, i) = "\"" THEN (LET q == UntilQuote(s, i + 1) IN IF q = 0 THEN 0 ELSE q - i + 1) ELSE 0
    [] r.k = "sigil" -> IF At(s, i) = r.c /\ IntLen(s, i + 1) > 0 THEN 1 + IntLen(s, i + 1) ELSE 0
    [] r.k = "id" -> IF At(s, i) \in IdStart THEN RunLen(s, i, IdChar) ELSE 0
    [] r.k = "int" -> IntLen(s, i)
    [] r.k = "comment" -> IF At(s, i) = "/" /\ At(s, i + 1) = "/" THEN UntilNl(s, i + 2) - i ELSE 0
    [] r.k = "any" -> 1

Newlines(t) == Cardinality({j \in DOMAIN t : t[j] = "\n"})
RECURSIVE TokR(_, _, _, _)
\* tokens of s from position i on, the current line being `line`; skipped segments (white space, comments) produce nothing
TokR(R, s, i, line) ==
  IF i > Len(s) THEN <<>>
  ELSE LET lens == [k \in DOMAIN R |-> MLen(R[k], s, i)]
           best == Max({lens[k] : k \in DOMAIN R})
           k == CHOOSE k \in DOMAIN R : lens[k] = best /\ \A j \in DOMAIN R : lens[j] = best => k <= j
           text == SubSeq(s, i, i + best - 1)
           l2 == line + Newlines(text)
       IN (IF R[k].n \in {"ws", "comment"} THEN <<>> ELSE <<[k |-> R[k].n, t |-> text, l |-> l2]>>) \o TokR(R, s, i + best, l2)
\* in-model sanity: every step consumes at least one character, and the token texts appear in order in the input
RECURSIVE Covered(_, _, _, _)
Covered(R, s, i, acc) ==
  IF i > Len(s) THEN acc = Len(s)
  ELSE LET best == Max({MLen(R[k], s, i) : k \in DOMAIN R}) IN best >= 1 /\ Covered(R, s, i + best, acc + best)

\* ---------- enumerator 1: all short strings over the significant alphabet -----------------------------
MaxLen == atoi(IOEnv.LEXLEN)
AlphaSet == IF IOEnv.LEXALPHA = "small"
            THEN SetOf("inEdD_01 /:=!<P$;a") \cup {"\n", "\"", "HI", "NUL"}
            ELSE SetOf("inINfdoDOeEx_019 /:=!<>P$#;,()+-aAvVpt") \cup {"\n", "\t", "\"", "HI", "CT", "NUL"}
VARIABLES s, done, rules,      \* rules: the table, carried in a variable because TLC re-evaluates definitions on every use
          fi, fj, fk           \* enumerator 2
lvars == <<s, done, rules, fi, fj, fk>>
Init == s = <<>> /\ done = FALSE /\ rules = RuleTable /\ fi = 0 /\ fj = 0 /\ fk = 0
Grow == ~done /\ Len(s) < MaxLen /\ \E c \in AlphaSet : s' = Append(s, c) /\ UNCHANGED <<done, rules, fi, fj, fk>>
Emit == /\ ~done /\ done' = TRUE /\ UNCHANGED <<s, rules, fi, fj, fk>>
        /\ PrintT("@@" \o ToJson([s |-> s, toks |-> TokR(rules, s, 1, 1)]))
Next == Grow \/ Emit
Spec == Init /\ [][Next]_lvars
Progressing == Covered(rules, s, 1, 0)

\* ---------- enumerator 2: pairs of fragments (keyword spellings and their near misses) -------------------
Frags == JsonDeserialize(IOEnv.FRAGS)        \* sequence of strings, each a sequence of characters
Seps == << <<>>, <<" ">>, <<"\n">>, <<" ", " ">> >>
\* the second component ranges over the fragments j with j % FMod = FRem (quick tier: a slice; thorough: FMod = 1)
FMod == atoi(IOEnv.FRAGMOD)
FRem == atoi(IOEnv.FRAGREM)
FInit == fi \in DOMAIN Frags /\ fj = 0 /\ fk = 0 /\ rules = RuleTable /\ s = <<>> /\ done = FALSE
FPick == /\ ~done /\ done' = TRUE /\ UNCHANGED <<fi, rules>>
         /\ \E j \in {j \in DOMAIN Frags : j % FMod = FRem}, k \in DOMAIN Seps :
              /\ fj' = j /\ fk' = k /\ s' = Frags[fi] \o Seps[k] \o Frags[j]
              /\ PrintT("@@" \o ToJson([s |-> s', toks |-> TokR(rules, s', 1, 1)]))
FSpec == FInit /\ [][FPick]_lvars
FProgressing == Covered(rules, s, 1, 0)
=============================================================================
