------------------------------ MODULE TheoMacro ------------------------------
(***************************************************************************)
(* Macro application (C09, C10, C11): the match relation, the choice of    *)
(* the rewriting step and the rewriting loop with its budget.              *)
(*                                                                         *)
(* The match relation is DECLARATIVE: Ends(sym, ts, i) is the set of end   *)
(* positions such that sym derives ts[i..j) - literals by kind, and by     *)
(* text for identifiers, integers and operator characters; the five slot   *)
(* non-terminals over the macro engine's documented slot grammar.  Among   *)
(* all matches Best picks highest priority, then leftmost, then longest;   *)
(* nothing else (definition order, implementation search order) enters.    *)
(* Rewrite replaces the matched range by the body with $n := the tokens    *)
(* bound to slot n and #n := a temporary named by (n, macro, pass).        *)
(* Families of macro sets are fixed below; all streams up to MACLEN tokens *)
(* over the family's vocabulary are enumerated, every rewriting path is    *)
(* emitted step by step for the S->I replay (apply_macros with budgets     *)
(* 1..k exposes the k-th intermediate stream at the API).                  *)
(***************************************************************************)
EXTENDS Integers, Sequences, FiniteSets, TLC, Json, IOUtils
MaxLen == atoi(IOEnv.MACLEN)
Budget == atoi(IOEnv.MACBUDGET)
Family == IOEnv.MACFAMILY

\* tokens: [k, t]; literal text matters for kinds id / int / op
T(k, t) == [k |-> k, t |-> t]
Slots == {"ID","INT","VALUE","ARGS","P"}
\* pattern symbol: [s |-> slot] or [l |-> token]
S(x) == [s |-> x]
L(k,t) == [l |-> T(k,t)]
Ins(n) == [ins |-> n]
Tmp(n) == [tmp |-> n]
Mac(p, pat, body) == [prio |-> p, pat |-> pat, body |-> body]
Ida == T("id","a")  Idb == T("id","b")  Idx == T("id","x")  Idy == T("id","y")  One == T("int","1")
Plus == T("op","+")  Star == T("op","*")  Asg == T("assign",":=")  Semi == T("semi",";")  Comma == T("comma",",")
KRun == T("run","RUN")  KWith == T("with","WITH")  KEnd == T("end","END")  KLoop == T("loop","LOOP")  KDo == T("do","DO")  KStop == T("stop","STOP")
\* macro: [prio, pat, body]; body elements: token | [ins |-> n] | [tmp |-> n].  [vocab, macros] per family.
Families == [
  \* a pattern that is a proper prefix of another one, both definition orders (longest wins, whatever the order)
  prefix1 |-> [v |-> {Ida, Idb, Idx, One, Asg, Semi, Plus},
               m |-> << Mac(0, <<L("id","a"), L("id","b")>>, <<Idy>>), Mac(0, <<L("id","a")>>, <<Idx>>) >>],
  prefix2 |-> [v |-> {Ida, Idb, Idx, One, Asg, Semi, Plus},
               m |-> << Mac(0, <<L("id","a")>>, <<Idx>>), Mac(0, <<L("id","a"), L("id","b")>>, <<Idy>>) >>],
  \* distinct priorities: the higher one first even if it is further right; slot numbering; literal operator text
  prio |-> [v |-> {Ida, Idb, One, Plus, Star, Semi},
            m |-> << Mac(5, <<S("VALUE"), L("op","+"), S("VALUE")>>, <<Idb, Ins(1), Ins(0)>>),
                     Mac(9, <<S("VALUE"), L("op","*"), S("VALUE")>>, <<Ins(1), Ins(0)>>) >>],
  \* equal priorities with overlapping candidates: leftmost, then longest
  overlap |-> [v |-> {Ida, Idb, Idx, One, Plus},
               m |-> << Mac(1, <<L("id","a"), S("VALUE")>>, <<Ins(0), Idx>>), Mac(1, <<S("VALUE"), L("id","b")>>, <<Idx, Ins(0)>>),
                        Mac(1, <<L("id","a"), S("VALUE"), L("id","b")>>, <<One>>) >>],
  \* literal keyword / identifier / operator constraints, ID and INT slots
  literal |-> [v |-> {Ida, Idb, One, T("int","2"), Plus, Star, KStop},
               m |-> << Mac(0, <<L("stop","STOP"), S("ID"), S("INT")>>, <<Ins(1), Ins(0)>>),
                        Mac(0, <<L("id","a"), L("op","+"), L("int","1")>>, <<Idb>>) >>],
  \* a slot used more than once in the body: every $n is replaced by exactly the tokens bound to slot n
  dup |-> [v |-> {Ida, Idb, One, Plus, Semi, KRun, KWith, KEnd},
           m |-> << Mac(0, <<S("ID"), L("op","+"), S("VALUE")>>, <<Ins(0), Asg, Ins(1), Semi, Ins(0), Asg, Ins(1), Ins(0)>>) >>],
  \* layered macros: the body of one introduces the operator that the pattern of the other needs (it occurs nowhere in the input)
  layered |-> [v |-> {Ida, Idb, One, Star, Semi},
               m |-> << Mac(5, <<S("ID"), L("op","*")>>, <<Ins(0), Plus, Ins(0)>>),
                        Mac(3, <<S("VALUE"), L("op","+"), S("VALUE")>>, <<KRun, Ida, KWith, Ins(0), Comma, Ins(1), KEnd>>) >>],
  \* VALUE and ARGS slots filled with nested calls
  args |-> [v |-> {Ida, Idx, One, Comma, KRun, KWith, KEnd, T("lparen","("), T("rparen",")")},
            m |-> << Mac(0, <<L("id","x"), L("lparen","("), S("ARGS"), L("rparen",")")>>, <<KRun, Ida, KWith, Ins(0), KEnd>>) >>],
  \* P slot with multi-statement bodies
  pslot |-> [v |-> {Ida, Idx, One, Asg, Semi, KLoop, KDo, KEnd, KStop},
             m |-> << Mac(0, <<L("id","x"), S("P"), L("end","END")>>, <<KLoop, Ida, KDo, Ins(0), KEnd>>) >>],
  \* temporaries: the same macro inside its own slot and twice in a sequence
  temps |-> [v |-> {Ida, Idx, One, Asg, Semi, KEnd},
             m |-> << Mac(0, <<L("id","x"), S("P"), L("end","END")>>, <<Tmp(0), Asg, One, Semi, Ins(0), Semi, Tmp(1), Asg, Tmp(0)>>) >>],
  \* temporaries numbered with a gap (#0 and #2), the macro used inside its own slot and twice in a sequence
  tempsgap |-> [v |-> {Ida, Idx, One, Asg, Semi, KEnd},
                m |-> << Mac(0, <<L("id","x"), S("P"), L("end","END")>>, <<Tmp(0), Asg, One, Semi, Ins(0), Semi, Tmp(2), Asg, Tmp(0)>>) >>],
  \* a macro with temporaries (numbered with a gap) whose VALUE slot can hold its own expansion: short streams nest it three deep
  tnest |-> [v |-> {Ida, Idb, Idx},
             m |-> << Mac(0, <<L("id","x"), S("VALUE")>>, <<KRun, Tmp(0), KWith, Ins(0), Comma, Tmp(2), KEnd>>) >>],
  \* two macros of equal priority using the same temporary numbers, uses visible at the same time
  temps2 |-> [v |-> {Ida, Idx, Idy, Semi},
              m |-> << Mac(0, <<L("id","x"), S("ID")>>, <<Tmp(0), Asg, Ins(0)>>),
                       Mac(0, <<L("id","y"), S("ID")>>, <<Tmp(0), Asg, Tmp(1), Semi, Ins(0), Asg, Tmp(0)>>) >>],
  \* self-reproducing, growing, mutually recursive and finite macros (termination within the budget)
  selfrep |-> [v |-> {Ida, Idb, Semi}, m |-> << Mac(0, <<L("id","a")>>, <<Ida>>) >>],
  grow |-> [v |-> {Ida, Idb, Semi}, m |-> << Mac(0, <<L("id","a")>>, <<Ida, Semi, Ida>>) >>],
  mutual |-> [v |-> {Ida, Idb, Idx}, m |-> << Mac(3, <<L("id","a")>>, <<Idb>>), Mac(7, <<L("id","b")>>, <<Ida, Idx>>) >>],
  finite |-> [v |-> {Ida, Idb, Idx}, m |-> << Mac(0, <<L("id","a")>>, <<Idb, Idb>>), Mac(0, <<L("id","b")>>, <<Idx>>) >>],
  \* a macro with an empty body in a higher priority class, fed by a lower-priority self-reproducing one: one rewriting step per pass all the same
  erase |-> [v |-> {Ida, Idb, Idx}, m |-> << Mac(5, <<L("id","b")>>, <<>>), Mac(1, <<L("id","a")>>, <<Ida, Idb>>) >>],
  \* eleven slots: insertion indices with two digits
  manyslots |-> [v |-> {Ida, Idx},
                 m |-> << Mac(0, <<L("id","x")>> \o [i \in 1..11 |-> S("ID")], <<Idb, Ins(10), Ins(1), Ins(0), Ins(9), Ins(10)>>) >>]
]
Vocab == Families[Family].v
Macros == Families[Family].m

Len0(ts, i) == i <= Len(ts)
K(ts, i) == IF i <= Len(ts) THEN ts[i].k ELSE "<eof>"

RECURSIVE EValue(_,_), EArgs(_,_), EArgsFix(_,_), EP(_,_), EPFix(_,_), EStmt(_,_), EAtomic(_,_)
EValue(ts, i) ==
  (IF K(ts,i) \in {"id","int"} THEN {i+1} ELSE {}) \cup
  (IF K(ts,i) = "run" /\ K(ts,i+1) = "id" /\ K(ts,i+2) = "with" THEN {j+1 : j \in {e \in EArgs(ts, i+3) : K(ts,e) = "end"}} ELSE {})
EArgsFix(ts, A) == LET B == A \cup UNION {EValue(ts, e+1) : e \in {e \in A : K(ts,e) = "comma"}} IN IF B = A THEN A ELSE EArgsFix(ts, B)
EArgs(ts, i) == EArgsFix(ts, EValue(ts, i))
EPFix(ts, A) == LET B == A \cup UNION {EStmt(ts, e+1) : e \in {e \in A : K(ts,e) = "semi"}} IN IF B = A THEN A ELSE EPFix(ts, B)
EP(ts, i) == EPFix(ts, EStmt(ts, i))
EStmt(ts, i) == EAtomic(ts, i) \cup (IF K(ts,i) = "id" /\ K(ts,i+1) = "colon" THEN EAtomic(ts, i+2) ELSE {})
EAtomic(ts, i) ==
  (IF K(ts,i) = "id" /\ K(ts,i+1) = "assign" THEN EValue(ts, i+2) ELSE {}) \cup
  (IF K(ts,i) = "loop" /\ K(ts,i+1) = "id" /\ K(ts,i+2) = "do" THEN {j+1 : j \in {e \in EP(ts,i+3) : K(ts,e) = "end"}} ELSE {}) \cup
  (IF K(ts,i) = "while" /\ K(ts,i+1) = "id" /\ K(ts,i+2) = "neq0" /\ K(ts,i+3) = "do" THEN {j+1 : j \in {e \in EP(ts,i+4) : K(ts,e) = "end"}} ELSE {}) \cup
  (IF K(ts,i) = "goto" /\ K(ts,i+1) = "id" THEN {i+2} ELSE {}) \cup
  (IF K(ts,i) = "if" /\ K(ts,i+1) = "id" /\ K(ts,i+2) = "eq" /\ K(ts,i+3) = "int" /\ K(ts,i+4) = "then" /\ K(ts,i+5) = "goto" /\ K(ts,i+6) = "id" THEN {i+7} ELSE {}) \cup
  (IF K(ts,i) = "stop" THEN {i+1} ELSE {})

Ends(sym, ts, i) ==
  IF "l" \in DOMAIN sym
  THEN (IF i <= Len(ts) /\ ts[i].k = sym.l.k /\ (sym.l.k \in {"id","int","op"} => ts[i].t = sym.l.t) THEN {i+1} ELSE {})
  ELSE CASE sym.s = "ID" -> IF K(ts,i) = "id" THEN {i+1} ELSE {}
         [] sym.s = "INT" -> IF K(ts,i) = "int" THEN {i+1} ELSE {}
         [] sym.s = "VALUE" -> EValue(ts, i)
         [] sym.s = "ARGS" -> EArgs(ts, i)
         [] sym.s = "P" -> EP(ts, i)

\* all ways the pattern suffix pat[k..] matches from position i: set of sequences of end positions
RECURSIVE MatchFrom(_,_,_,_)
MatchFrom(pat, k, ts, i) ==
  IF k > Len(pat) THEN {<<>>}
  ELSE UNION {{<<e>> \o rest : rest \in MatchFrom(pat, k+1, ts, e)} : e \in Ends(pat[k], ts, i)}

AllMatches(ts) == {[m |-> m, loc |-> i, ends |-> es] : m \in DOMAIN Macros, i \in 1..Len(ts)+1, es \in UNION {MatchFrom(Macros[mm].pat, 1, ts, ii) : mm \in DOMAIN Macros, ii \in 1..Len(ts)+1}} 
MatchesOf(ts) == UNION {{[m |-> m, loc |-> i, ends |-> es] : es \in MatchFrom(Macros[m].pat, 1, ts, i)} : m \in DOMAIN Macros, i \in 1..(Len(ts)+1)}
MLen(x) == x.ends[Len(x.ends)] - x.loc
Better(x, y) == \/ Macros[x.m].prio > Macros[y.m].prio
                \/ Macros[x.m].prio = Macros[y.m].prio /\ x.loc < y.loc
                \/ Macros[x.m].prio = Macros[y.m].prio /\ x.loc = y.loc /\ MLen(x) > MLen(y)
Best(ts) == LET M == MatchesOf(ts) IN {x \in M : \A y \in M : ~Better(y, x)}

SlotIdx(pat) == LET RECURSIVE F(_) F(k) == IF k > Len(pat) THEN <<>> ELSE (IF "s" \in DOMAIN pat[k] THEN <<k>> ELSE <<>>) \o F(k+1) IN F(1)
Bound(x, ts, k) == LET st == IF k = 1 THEN x.loc ELSE x.ends[k-1] IN SubSeq(ts, st, x.ends[k]-1)
Inst(x, ts, pass) ==
  LET mac == Macros[x.m]  si == SlotIdx(mac.pat)
      RECURSIVE F(_)
      F(j) == IF j > Len(mac.body) THEN <<>>
              ELSE LET b == mac.body[j] IN
                   (IF "ins" \in DOMAIN b THEN Bound(x, ts, si[b.ins + 1])
                    ELSE IF "tmp" \in DOMAIN b THEN <<T("id", "#" \o ToString(b.tmp) \o "@" \o ToString(x.m) \o "@" \o ToString(pass))>>
                    ELSE <<b>>) \o F(j+1)
  IN F(1)
Apply(x, ts, pass) == SubSeq(ts, 1, x.loc - 1) \o Inst(x, ts, pass) \o SubSeq(ts, x.ends[Len(x.ends)], Len(ts))

VARIABLES ts0, ts, pass, steps, phase
vars == <<ts0, ts, pass, steps, phase>>
RECURSIVE Streams(_)
Streams(n) == IF n = 0 THEN {<<>>} ELSE LET P == Streams(n-1) IN P \cup {Append(s, v) : s \in {s \in P : Len(s) = n-1}, v \in Vocab}
Init == ts0 \in Streams(MaxLen) /\ ts = ts0 /\ pass = 0 /\ steps = <<>> /\ phase = "rw"
Rewrite == /\ phase = "rw" /\ pass < Budget /\ Best(ts) # {}
           /\ \E x \in Best(ts) : ts' = Apply(x, ts, pass) /\ steps' = Append(steps, ts')
           /\ pass' = pass + 1 /\ UNCHANGED <<ts0, phase>>
Finish == /\ phase = "rw" /\ (pass = Budget \/ Best(ts) = {}) /\ phase' = "done"
          \* the too-many-substitutions error: required if rewriting is still possible, optional if exactly the budget was needed
          /\ PrintT("@@" \o ToJson([fam |-> Family, budget |-> Budget, stream |-> ts0, steps |-> steps,
                                     err |-> IF Best(ts) # {} THEN "must" ELSE IF pass = Budget THEN "may" ELSE "no"]))
          /\ UNCHANGED <<ts0, ts, pass, steps>>
\* the family's macro set, for the replayer (so that the rendering has a single source of truth)
ShowFamily == PrintT("@@" \o ToJson([macros |-> Macros]))
Next == Rewrite \/ Finish
Spec == Init /\ [][Next]_vars

\* ---- checked in the model --------------------------------------------------------------------------------
\* C09: prefix-determinism of the (usable) patterns of the family: at most one match per macro and start position
UniquePerLoc == phase = "rw" => \A m \in DOMAIN Macros, i \in 1..(Len(ts) + 1) : Cardinality(MatchFrom(Macros[m].pat, 1, ts, i)) <= 1
\* C09: the chosen step is maximal in the order priority > leftmost > longest, and any two best matches agree on all three
BestAgree == phase = "rw" => \A x, y \in Best(ts) : Macros[x.m].prio = Macros[y.m].prio /\ x.loc = y.loc /\ MLen(x) = MLen(y)
\* C11: never more rewriting steps than the budget; the stream grows by at most the literal body tokens per step
\* (each family uses every slot at most once in a body)
BodyLits(mac) == Cardinality({j \in DOMAIN mac.body : "ins" \notin DOMAIN mac.body[j]})
MaxBody == LET S0 == {BodyLits(Macros[m]) : m \in DOMAIN Macros} IN CHOOSE b \in S0 : \A c \in S0 : c <= b
PassBound == pass <= Budget /\ Len(steps) = pass
GrowthBound == Len(ts) <= Len(ts0) + pass * MaxBody
\* C10: a temporary introduced by a step is a name that does not occur in the stream before that step
IsTemp(tok) == tok.k = "id" /\ SubSeq(tok.t, 1, 1) = "#"
TempsFresh == [][\A j \in DOMAIN ts' : (IsTemp(ts'[j]) /\ \E q \in 0..9 : ts'[j].t = "#" \o ToString(q) \o "@" \o ToString(CHOOSE m \in DOMAIN Macros : TRUE) \o "@" \o ToString(pass))
                        => \A i \in DOMAIN ts : ts[i] # ts'[j]]_vars
=============================================================================