---------------------------- MODULE TheoCliTrace ----------------------------
(***************************************************************************)
(* Extension beyond the listed properties: the interactive debugger of the *)
(* command line tool (CLI/cli.cpp, `theo -d`) as a client of TheoVM.       *)
(* Each command is a fixed sequence of VM API calls:                       *)
(*    e  execute()                                                         *)
(*    s  setSteppingMode(true); execute(); setSteppingMode(false)          *)
(*    r  reset()        c  clearBreakpoints()                              *)
(*    b f n / d f n     setBreakPoint(f, n, true / false)                  *)
(* and what the tool prints afterwards (commands l, a, m: current          *)
(* location, enabled breakpoints, variables of the last activation) is a   *)
(* function of the VM state.  A session recorded from the real binary is   *)
(* validated command by command.                                           *)
(***************************************************************************)
EXTENDS TheoVM

ASSUME TLCSet(10, ndJsonDeserialize(IOEnv.TRACE))
Tr == TLCGet(10)
VARIABLES l, ph      \* next event; phase inside a composite command
cvars == <<vars, l, ph>>
Ev == Tr[l]
IsCmd(c) == l <= Len(Tr) /\ Tr[l].e = "cli" /\ Tr[l].cmd = c

Pairs(s) == {<<s[i][1], s[i][2]>> : i \in DOMAIN s}
\* what `l`, `a`, `m` print after the command
ObsOK(ev) ==
  /\ <<ev.cur[1], ev.cur[2]>> = CurrentBreak'
  /\ Pairs(ev.enabled) = enabled'
  /\ ev.hastop = (stack' # <<>>)
  /\ (stack' # <<>> => Pairs(ev.top) = ViewOf(Len(stack))')

CInit == /\ l = 1 /\ ph = "ready" /\ hist = <<>> /\ l <= Len(Tr) /\ Tr[1].e = "load" /\ InitMach(Tr[1].p)
CFirst == l = 1 /\ l' = 2 /\ UNCHANGED <<vars, ph>>
CLoad == /\ l > 1 /\ ph = "ready" /\ l <= Len(Tr) /\ Ev.e = "load" /\ Idle
         /\ p' = Ev.p /\ ip' = 0 /\ ops' = Pristine(Ev.p) /\ data' = <<>> /\ stack' = <<>> /\ enabled' = {}
         /\ stepping' = FALSE /\ mode' = "idle" /\ ret' = "none" /\ g' = G0(Ev.p) /\ hist' = <<>>
         /\ l' = l + 1 /\ UNCHANGED ph
Done1(ev) == ObsOK(ev) /\ l' = l + 1 /\ ph' = "ready"
CReset == l > 1 /\ ph = "ready" /\ IsCmd("r") /\ Reset /\ Done1(Ev)
CClear == l > 1 /\ ph = "ready" /\ IsCmd("c") /\ ClearBreakpoints /\ Done1(Ev)
CBreak == /\ l > 1 /\ ph = "ready" /\ (IsCmd("b") \/ IsCmd("d"))
          /\ SetBreakPoint(<<Ev.file, Ev.line>>, Ev.cmd = "b")
          /\ Ev.ok = (ret' = "true")               \* "no possible breakpoint ..." is printed exactly when the call fails
          /\ Done1(Ev)
CExecBegin == l > 1 /\ ph = "ready" /\ IsCmd("e") /\ Execute /\ ph' = "e" /\ UNCHANGED l
CStepOn == l > 1 /\ ph = "ready" /\ IsCmd("s") /\ SetSteppingMode(TRUE) /\ ph' = "s1" /\ UNCHANGED l
CStepExec == ph = "s1" /\ Execute /\ ph' = "s2" /\ UNCHANGED l
CRun == /\ mode = "run" /\ Run
        /\ IF mode' = "run" THEN UNCHANGED <<l, ph>>
           ELSE IF ph = "e" THEN Done1(Ev) ELSE (ph' = "s3" /\ UNCHANGED l)
CStepOff == ph = "s3" /\ SetSteppingMode(FALSE) /\ Done1(Ev)
CNext == CFirst \/ CLoad \/ CReset \/ CClear \/ CBreak \/ CExecBegin \/ CStepOn \/ CStepExec \/ CRun \/ CStepOff
CSpec == CInit /\ [][CNext]_cvars
ASSUME TLCSet(1, 0)
Progress == TLCSet(1, IF l > TLCGet(1) THEN l ELSE TLCGet(1))
Accepted == PrintT(<<"maxl", TLCGet(1), "of", Len(Tr)>>) /\ TLCGet(1) > Len(Tr)
=============================================================================
