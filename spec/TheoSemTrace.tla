---------------------------- MODULE TheoSemTrace ----------------------------
(***************************************************************************)
(* Trace validation of real compile-and-run executions against TheoSem     *)
(* (C01, C07, C16).  The log (th steptrace, post-processed by lib/sem.py)  *)
(* holds, per execution: a "load" event naming the AST, then - in "every"  *)
(* mode, for one-statement-per-line sources - one "stop" event per         *)
(* stepping stop with the location and the variable views of all live      *)
(* activations, then a "final" event (HALT executed) or a "timeout" event  *)
(* (the VM did not finish within its instruction budget).                  *)
(* Between two logged events the reference machine takes silent steps.     *)
(***************************************************************************)
EXTENDS TheoSem

\* read once (register 10), not on every reference to Tr; validation runs with one worker
ASSUME TLCSet(10, ndJsonDeserialize(IOEnv.TRACE))
Tr == TLCGet(10)

VARIABLES l,       \* next event to explain
          every,   \* this execution logs every stop (C07) / only the end (C01 on free layouts)
          lim      \* step limit of this execution (from the VM's own step count, see lib/sem.py)
tvars == <<svars, l, every, lim>>

Ev == Tr[l]
IsEvent(e) == l <= Len(Tr) /\ Tr[l].e = e

UVars(r) == IF r = 0 THEN {Asts[a].mainvars[i] : i \in DOMAIN Asts[a].mainvars}
            ELSE {Asts[a].routines[r].vars[i] : i \in DOMAIN Asts[a].routines[r].vars}
\* every user variable of every live activation is listed with the reference value; other names are ignored
ViewOK(ev) ==
  /\ Len(ev.views) = Len(frames)
  /\ \A k \in DOMAIN frames : \A x \in UVars(frames[k].r) :
        \E i \in DOMAIN ev.views[k] : ev.views[k][i][1] = x /\ ev.views[k][i][2] = Get(frames[k].env, x)

TInit == /\ l = 1 /\ IsEvent("load") /\ SemInit(Tr[1].a) /\ every = Tr[1].every /\ lim = Tr[1].lim
TFirst == /\ l = 1 /\ l' = 2 /\ UNCHANGED <<svars, every, lim>>
TLoad == /\ l > 1 /\ IsEvent("load") /\ (l > 2 => Tr[l - 1].e \in {"final", "final2", "cli", "timeout"})
         /\ a' = Ev.a /\ code' = MkCode(Ev.a) /\ labs' = MkLabs(Ev.a) /\ frames' = <<Frame0(0, EmptyEnv, "")>> /\ halted' = FALSE /\ over' = FALSE /\ n' = 0
         /\ every' = Ev.every /\ lim' = Ev.lim /\ l' = l + 1
\* unlogged step: anything that is not a line event (every mode), any step (final-only mode)
TSilent == /\ l > 1 /\ ~Done /\ n < lim /\ (every => Cur.op # "line")
           /\ ~IsEvent("load")
           /\ Exec /\ UNCHANGED <<l, every, lim>>
\* C07: the stop is the current line event, with the reference values
TStop == /\ l > 1 /\ every /\ ~Done /\ Cur.op = "line" /\ IsEvent("stop")
         /\ Ev.file = Cur.file /\ Ev.line = Cur.line /\ ViewOK(Ev)
         /\ Exec /\ l' = l + 1 /\ UNCHANGED <<every, lim>>
\* C01: the run ended (HALT executed) exactly when the reference run is over, with the reference values;
\* C16: the activation stack never exceeded definitions + 1
TFinal == /\ l > 1 /\ Done /\ ~over /\ IsEvent("final") /\ ViewOK(Ev)
          /\ Ev.maxdepth <= NR(a) + 1
          /\ l' = l + 1 /\ UNCHANGED <<svars, every, lim>>
\* the uninterrupted run (execute() on a fresh VM, no stepping mode) ends in the same state
TFinal2 == /\ l > 1 /\ Done /\ ~over /\ IsEvent("final2") /\ Ev.done /\ ViewOK(Ev)
           /\ l' = l + 1 /\ UNCHANGED <<svars, every, lim>>
\* the command line tool (bin/theo) prints the variables of the last activation after execute()
TCli == /\ l > 1 /\ Done /\ ~over /\ IsEvent("cli")
        /\ \A x \in UVars(Top.r) : \E i \in DOMAIN Ev.vars : Ev.vars[i][1] = x /\ Ev.vars[i][2] = Get(Top.env, x)
        /\ l' = l + 1 /\ UNCHANGED <<svars, every, lim>>
\* C01, second sentence: the VM exhausted its proportional budget and the reference run is not over either
TTimeout == /\ l > 1 /\ ~Done /\ IsEvent("timeout") /\ n >= Ev.minsteps
            /\ l' = l + 1 /\ UNCHANGED <<svars, every, lim>>
\* a value left the word range: this execution is outside C01's domain, its remaining events are skipped
TSkip == /\ l > 1 /\ over /\ l <= Len(Tr) /\ Ev.e \in {"stop", "final", "final2", "cli", "timeout"}
         /\ l' = l + 1 /\ UNCHANGED <<svars, every, lim>>

TNext == TFirst \/ TLoad \/ TSilent \/ TStop \/ TFinal \/ TFinal2 \/ TCli \/ TTimeout \/ TSkip
TSpec == TInit /\ [][TNext]_tvars

NotAccepted == l <= Len(Tr)
\* debugging aid: stop at event DEBUGL and print the behaviour so far
DebugStop == l < atoi(IOEnv.DEBUGL)
\* acceptance without an error trace: register 1 holds the furthest event reached (one worker)
ASSUME TLCSet(1, 0) /\ TLCSet(2, 0)
Progress == TLCSet(1, IF l > TLCGet(1) THEN l ELSE TLCGet(1)) /\ (over => TLCSet(2, l))
Accepted == PrintT(<<"maxl", TLCGet(1), "of", Len(Tr), "over", TLCGet(2)>>) /\ TLCGet(1) > Len(Tr)
=============================================================================
