------------------------------- MODULE TheoWord -------------------------------
(***************************************************************************)
(* C20, compile-time part: integer literals and priorities that do not fit *)
(* the word are rejected.  TLC's integers are 32 bit, so the rule is       *)
(* stated on digit strings: a literal is accepted iff, as a number, it is  *)
(* at most 2147483646 (= 2^31 - 2, "below 2^31 - 1").                      *)
(* The module enumerates literals x positions and emits, for the S->I      *)
(* replayer, the source text together with the expected verdict.           *)
(***************************************************************************)
EXTENDS Integers, Sequences, TLC, Json

Digit(c) == CASE c = "0" -> 0 [] c = "1" -> 1 [] c = "2" -> 2 [] c = "3" -> 3 [] c = "4" -> 4
              [] c = "5" -> 5 [] c = "6" -> 6 [] c = "7" -> 7 [] c = "8" -> 8 [] c = "9" -> 9
Ch(s, i) == SubSeq(s, i, i)
RECURSIVE LexLE(_, _, _)
\* equal-length digit strings: s <= t
LexLE(s, t, i) == IF i > Len(s) THEN TRUE
                  ELSE IF Digit(Ch(s, i)) < Digit(Ch(t, i)) THEN TRUE
                  ELSE IF Digit(Ch(s, i)) > Digit(Ch(t, i)) THEN FALSE ELSE LexLE(s, t, i + 1)
MaxLit == "2147483646"
\* literals are canonical (no leading zeros): that is what the scanner's integer rule produces
LitFits(s) == Len(s) < Len(MaxLit) \/ (Len(s) = Len(MaxLit) /\ LexLE(s, MaxLit, 1))

Lits == {"0", "1", "7", "2147483645", "2147483646", "2147483647", "2147483648", "4294967295", "4294967296", "4294967297",
         "9999999999", "99999999999", "9223372036854775807", "9223372036854775808", "18446744073709551616",
         "1000000000000000000000000000000000000001"}
\* a position is a pair of strings around the literal; "plain" positions obey the literal rule
Positions == {
  [n |-> "assign", pre |-> "x := ", post |-> ""],
  [n |-> "if", pre |-> "x := 1; IF x = ", post |-> " THEN GOTO l; l: x := 2"],
  [n |-> "callarg", pre |-> "PROGRAM f IN a DO x0 := a END y := RUN f WITH ", post |-> " END"],
  [n |-> "plus", pre |-> "x := 1; y := x + ", post |-> ""],
  [n |-> "minus", pre |-> "x := 1; y := x - ", post |-> ""],
  [n |-> "plus_in_arg", pre |-> "PROGRAM f IN a DO x0 := a END x := 2; y := RUN f WITH x + ", post |-> " END"],
  [n |-> "macro_int_slot", pre |-> "DEFINE TWICE <INT> AS x := $0 ; y := $0 END DEFINE TWICE ", post |-> ""],
  [n |-> "in_macro_body", pre |-> "DEFINE SETX AS x := ", post |-> " END DEFINE SETX"],
  [n |-> "in_loop", pre |-> "x := 1; LOOP x DO y := ", post |-> " END"] }
\* priorities: the boundary value 2^31-1 itself is left open (it fits an int, the property says "do not fit the word")
PrioPos == [n |-> "prio", pre |-> "DEFINE PRIO ", post |-> " NOP AS x := 1 END DEFINE NOP"]
\* insertion indices of any length never reference a slot of a one-slot macro unless they are 0
InsPos == [n |-> "insertion", pre |-> "DEFINE SETV <ID> AS $0 := $", post |-> " END DEFINE SETV x"]

\* accept: the expected verdict; range: a range error must be among the reported errors
Cases == {[pos |-> q.n, lit |-> s, src |-> q.pre \o s \o q.post, accept |-> LitFits(s), range |-> ~LitFits(s)] : q \in Positions, s \in Lits}
         \cup {[pos |-> "prio", lit |-> s, src |-> PrioPos.pre \o s \o PrioPos.post, accept |-> LitFits(s), range |-> ~LitFits(s)] : s \in Lits \ {"2147483647"}}
         \cup {[pos |-> "insertion", lit |-> s, src |-> InsPos.pre \o s \o InsPos.post, accept |-> s = "0", range |-> ~LitFits(s)] : s \in Lits}

VARIABLE c
Init == c \in Cases
Next == UNCHANGED c
Spec == Init /\ [][Next]_c
Emit == PrintT("@@" \o ToJson(c))
\* in-model sanity: the digit-string order agrees with the integer order where TLC can compute it
Sane == \A s \in {"0", "1", "7", "2147483645", "2147483646", "2147483647"} : LitFits(s) = (s # "2147483647")
ASSUME Sane
=============================================================================
