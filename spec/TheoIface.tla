------------------------------ MODULE TheoIface ------------------------------
(***************************************************************************)
(* C02: the shape of a compilation result.  The only action of the         *)
(* "compile" interface is Compile: it always returns, and what it returns  *)
(* satisfies ResultOK.  The log (th compile, one event per compilation,    *)
(* written after the call returned) is validated event by event; a crash,  *)
(* sanitizer abort or timeout is an "abort" event, which no action         *)
(* explains.                                                               *)
(***************************************************************************)
EXTENDS Integers, Sequences, FiniteSets, TLC, Json, IOUtils

ASSUME TLCSet(10, ndJsonDeserialize(IOEnv.TRACE))
Tr == TLCGet(10)

\* an error location: the '-' placeholder, the hidden standard-macro file, or a line inside a supplied file
LocOK(e, files) ==
  \/ e.file = "-" /\ e.line = -1
  \/ e.file = "__standards__" /\ e.line \in 1..3
  \/ \E i \in DOMAIN files : files[i].name = e.file /\ e.line >= 1 /\ e.line <= files[i].lines
ResultOK(ev) ==
  /\ ev.ok = (ev.nerrors = 0)                                       \* never both, never neither
  /\ (ev.nerrors = 0) = (Len(ev.errors) = 0)                        \* (the log carries at most the first 300 errors of a result)
  /\ \A i \in DOMAIN ev.errors : ev.errors[i].msglen >= 1 /\ LocOK(ev.errors[i], ev.files)

VARIABLE l
Init == l = 1
Compile == l <= Len(Tr) /\ Tr[l].e = "compile" /\ ResultOK(Tr[l]) /\ l' = l + 1
Next == Compile
Spec == Init /\ [][Next]_l
ASSUME TLCSet(1, 0)
Progress == TLCSet(1, IF l > TLCGet(1) THEN l ELSE TLCGet(1))
Accepted == PrintT(<<"maxl", TLCGet(1), "of", Len(Tr)>>) /\ TLCGet(1) > Len(Tr)
=============================================================================
