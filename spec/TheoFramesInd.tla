--------------------------- MODULE TheoFramesInd ---------------------------
(* Apalache-only wrapper: an arbitrary state satisfying the invariant as initial state (inductive step). *)
EXTENDS TheoFrames, Apalache
IndInit == /\ stack = Gen(8) /\ dlen = Gen(1) /\ FramesExact
=============================================================================
