----------------------------- MODULE TheoInclude -----------------------------
(***************************************************************************)
(* The scanner's include stack (C15, and the include clause of C14).       *)
(*                                                                         *)
(* Files are sequences of items, one item per line: a token, a quoted       *)
(* string standing alone, an include of                                    *)
(* a present file or of the absent name, an include without a quoted name  *)
(* (followed on its line by one token, which the directive consumes), or a *)
(* bare include as the very last item of a file.  The state machine        *)
(* mirrors Theo::scan: one action per branch of its loop.                  *)
(* Enumeration: all file contents up to MaxItems items over Files, every   *)
(* choice of main including the absent one.                                *)
(***************************************************************************)
EXTENDS Integers, Sequences, FiniteSets, TLC, Json, IOUtils

NFiles == atoi(IOEnv.INCFILES)
MaxItems == atoi(IOEnv.INCITEMS)
Files == IF NFiles = 2 THEN {"a", "b"} ELSE IF NFiles = 3 THEN {"a", "b", "c"} ELSE {"a", "b", "c", "d"}
Absent == "z"
Limit == atoi(IOEnv.INCLIMIT)        \* 1048576 in the shipped configuration; a harness variant is built with a tiny bound
\* "wellformed": only tokens and includes of present files (the include layouts of C14)
WellFormedOnly == IOEnv.INCKIND = "wellformed"
Items == IF WellFormedOnly THEN {[k |-> "tok"]} \cup {[k |-> "inc", f |-> x] : x \in Files}
         ELSE {[k |-> "tok"], [k |-> "str"]} \cup {[k |-> "inc", f |-> x] : x \in Files \cup {Absent}} \cup {[k |-> "incbad"], [k |-> "incend"]}
\* a bare include may only be the last item of its file
WellFormed(c) == \A i \in DOMAIN c : c[i].k = "incend" => i = Len(c)
Contents == {c \in UNION {[1..n -> Items] : n \in 0..MaxItems} : WellFormed(c)}

VARIABLES fs, main, stk, out, errs, reqs, done, steps
vars == <<fs, main, stk, out, errs, reqs, done, steps>>

Start == /\ stk = IF main \in DOMAIN fs THEN <<[f |-> main, pos |-> 1]>> ELSE <<>>
         /\ out = <<>> /\ done = FALSE /\ steps = 0
         /\ errs = IF main \in DOMAIN fs THEN <<>> ELSE <<[t |-> "MAIN_FILE_NOT_FOUND", f |-> "-", l |-> -1]>>
         /\ reqs = IF main \in DOMAIN fs THEN <<>> ELSE <<main>>
\* exhaustive enumeration
Init == fs \in [Files -> Contents] /\ main \in (IF WellFormedOnly THEN Files ELSE Files \cup {Absent}) /\ Start
\* given configurations (randomly generated larger graphs): a JSON list of [fs, main]
Given == JsonDeserialize(IOEnv.INCCASES)
GInit == (\E i \in DOMAIN Given : fs = Given[i].fs /\ main = Given[i].main) /\ Start
Top == stk[Len(stk)]
OnStack(x) == \E i \in DOMAIN stk : stk[i].f = x
Adv == [stk EXCEPT ![Len(stk)].pos = @ + 1]
Cur == fs[Top.f][Top.pos]
AtItem == stk # <<>> /\ Top.pos <= Len(fs[Top.f])
Keep == UNCHANGED <<fs, main, done>> /\ steps' = steps + 1

PopEOF == ~done /\ stk # <<>> /\ Top.pos > Len(fs[Top.f]) /\ stk' = SubSeq(stk, 1, Len(stk) - 1) /\ UNCHANGED <<out, errs, reqs>> /\ Keep
\* an ordinary token, or a quoted string that is not the operand of an include (it is a token like any other, also when the file
\* included just before ended in a bare include)
EmitTok == /\ ~done /\ AtItem /\ Cur.k \in {"tok", "str"} /\ out' = Append(out, [f |-> Top.f, l |-> Top.pos, k |-> Cur.k])
           \* the stream of one compilation is bounded (THEO_SCAN_MAX_TOKENS): the token that reaches the bound is the last one, the
           \* bound is reported where it was reached and scanning stops (all open files are closed)
           /\ IF Len(out) + 1 >= Limit
                THEN stk' = <<>> /\ errs' = Append(errs, [t |-> "TOO_MANY_TOKENS", f |-> Top.f, l |-> Top.pos])
                ELSE stk' = Adv /\ UNCHANGED errs
           /\ UNCHANGED reqs /\ Keep
IncludeNoName == ~done /\ AtItem /\ Cur.k \in {"incbad", "incend"} /\ stk' = Adv
                 /\ errs' = Append(errs, [t |-> "EXPECTED_FILENAME", f |-> Top.f, l |-> Top.pos]) /\ UNCHANGED <<out, reqs>> /\ Keep
IncludeMissing == ~done /\ AtItem /\ Cur.k = "inc" /\ Cur.f \notin DOMAIN fs /\ stk' = Adv
                  /\ errs' = Append(errs, [t |-> "FILE_NOT_FOUND", f |-> Top.f, l |-> Top.pos]) /\ reqs' = Append(reqs, Cur.f) /\ UNCHANGED out /\ Keep
IncludeRecursive == ~done /\ AtItem /\ Cur.k = "inc" /\ Cur.f \in DOMAIN fs /\ OnStack(Cur.f) /\ stk' = Adv
                    /\ errs' = Append(errs, [t |-> "RECURSIVE_INCLUDE", f |-> Top.f, l |-> Top.pos]) /\ UNCHANGED <<out, reqs>> /\ Keep
IncludeOk == ~done /\ AtItem /\ Cur.k = "inc" /\ Cur.f \in DOMAIN fs /\ ~OnStack(Cur.f)
             /\ stk' = Append(Adv, [f |-> Cur.f, pos |-> 1]) /\ UNCHANGED <<out, errs, reqs>> /\ Keep
Finish == /\ ~done /\ stk = <<>> /\ done' = TRUE /\ UNCHANGED <<fs, main, stk, out, errs, reqs, steps>>
          /\ PrintT("@@" \o ToJson([fs |-> fs, main |-> main, out |-> out, errs |-> errs, reqs |-> reqs]))
Next == PopEOF \/ EmitTok \/ IncludeNoName \/ IncludeMissing \/ IncludeRecursive \/ IncludeOk \/ Finish
Spec == Init /\ [][Next]_vars /\ WF_vars(Next)
GSpec == GInit /\ [][Next]_vars /\ WF_vars(Next)

\* ---- checked in the model ----------------------------------------------------------------------------
Terminates == <>done
\* the active stack never holds a file twice, so its depth is bounded by the number of files
DepthOK == Len(stk) <= Cardinality(DOMAIN fs) /\ \A i, j \in DOMAIN stk : stk[i].f = stk[j].f => i = j
\* explicit work bound: every file can be entered at most once per include directive executed
StepBound == steps <= 10000
\* exactly the absent names that were included (or the absent main) are requested
ReqsOK == done => {reqs[i] : i \in DOMAIN reqs} \cap DOMAIN fs = {}
RecursiveIff == \A i \in DOMAIN errs : errs[i].t = "RECURSIVE_INCLUDE" =>
                   fs[errs[i].f][errs[i].l].k = "inc" /\ fs[errs[i].f][errs[i].l].f \in DOMAIN fs
=============================================================================
