----------------------------- MODULE TheoFrames -----------------------------
(***************************************************************************)
(* The frame discipline of the VM (C19) in isolation, for an inductive     *)
(* proof with Apalache: whatever sequence of PREPARE_EXEC / EXEC / RET /   *)
(* other instructions is executed, and whatever the frame sizes are, the   *)
(* data memory is exactly the frames of the live activations, contiguous   *)
(* and in call order.  Frame sizes and the memory length are unbounded     *)
(* integers here; only the stack depth is bounded (C16 bounds it by the    *)
(* number of program definitions plus one).                                *)
(* TheoVM refines this module (property FramesRefine there, checked by TLC *)
(* on the complete debugger graph of the corpus): every step of the        *)
(* specified VM is a Prep, Ret, Clear or Other step under the projection   *)
(* stack -> (base, size) per frame, dlen -> Len(data).                     *)
(***************************************************************************)
EXTENDS Integers, Sequences

CONSTANT
  \* @type: Int;
  MaxDepth

VARIABLES
  \* @type: Seq({base: Int, size: Int});
  stack,
  \* @type: Int;
  dlen

\* frame sizes: any natural number (TLC, which cannot enumerate Nat, checks TheoVM's refinement with this definition
\* replaced by a finite range in the configuration: Sizes <- [TheoFrames] FiniteSizes)
Sizes == Nat
\* PREPARE_EXEC: a new frame of any size on top of the memory
Prep == /\ Len(stack) < MaxDepth
        /\ \E s \in Sizes : /\ stack' = Append(stack, [base |-> dlen, size |-> s])
                          /\ dlen' = dlen + s
\* RET: the top frame is released (the memory is cut back to where the frame began)
Ret == /\ Len(stack) >= 1
       /\ dlen' = stack[Len(stack)].base
       /\ stack' = SubSeq(stack, 1, Len(stack) - 1)
\* every other instruction leaves the frames alone
Other == UNCHANGED <<stack, dlen>>
\* reset() and loading a program drop everything at once
Clear == stack' = <<>> /\ dlen' = 0
Init == stack = <<>> /\ dlen = 0
Next == Other \/ Ret \/ Clear \/ Prep
Spec == Init /\ [][Next]_<<stack, dlen>>

FramesExact ==
  /\ Len(stack) <= MaxDepth
  /\ dlen >= 0
  /\ (Len(stack) = 0 => dlen = 0)
  /\ (Len(stack) >= 1 => stack[1].base = 0 /\ dlen = stack[Len(stack)].base + stack[Len(stack)].size)
  /\ \A i \in DOMAIN stack : stack[i].size >= 0 /\ stack[i].base >= 0
  /\ \A i \in DOMAIN stack : i < Len(stack) => stack[i + 1].base = stack[i].base + stack[i].size
=============================================================================
