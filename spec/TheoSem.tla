------------------------------- MODULE TheoSem -------------------------------
(***************************************************************************)
(* Reference natural-number semantics of LOOP/WHILE/GOTO sources with      *)
(* line events (C01, C07, C16).  The input is the AST the generator wrote  *)
(* next to each source (lib/gen.py); nothing of the compiler is modelled.  *)
(*                                                                         *)
(* LOOP and WHILE are defined by their standard translation into GOTO      *)
(* programs (operator Flat): each syntactic LOOP owns a hidden counter in  *)
(* its activation - zero in a fresh activation, set from the bound at      *)
(* entry, decremented after the body - which also gives jumps into loop    *)
(* bodies the only meaning consistent with "as often as the bound's value  *)
(* at entry".  Calls are by value, callee locals start at zero, the OUT    *)
(* variable (default x0) is copied to the caller's target on return; STOP  *)
(* halts the whole machine with every activation still live.               *)
(***************************************************************************)
EXTENDS Integers, Sequences, FiniteSets, TLC, Json, IOUtils

Asts == JsonDeserialize(IOEnv.ASTS)         \* sequence of programs (AST + source positions)
NA == Len(Asts)
MaxWord == 2147483647

\* ---------- flattening: structured AST -> GOTO program with line markers ------------------------
Simple(v) == v.k \in {"var", "const", "inc", "dec"}

RECURSIVE HoistArgs(_, _, _)
\* nested calls among the arguments are evaluated first, left to right, into hidden variables
HoistArgs(args, i, acc) ==
  IF i > Len(args) THEN acc
  ELSE LET a == args[i] IN
       IF Simple(a) THEN HoistArgs(args, i + 1, [code |-> acc.code, args |-> Append(acc.args, a), n |-> acc.n])
       ELSE LET inner == HoistArgs(a.args, 1, [code |-> acc.code, args |-> <<>>, n |-> acc.n])
                t == "%t" \o ToString(inner.n)
            IN HoistArgs(args, i + 1,
                 [code |-> Append(inner.code, [op |-> "call", x |-> t, f |-> a.f, args |-> inner.args]),
                  args |-> Append(acc.args, [k |-> "var", x |-> t]), n |-> inner.n + 1])

RECURSIVE FlatBlock(_, _), FlatStmt(_, _)
FlatStmt(s, b) ==
  LET ln == <<[op |-> "line", file |-> s.file, line |-> s.line]>> IN
  CASE s.k = "assign" ->
         IF Simple(s.v) THEN ln \o <<[op |-> "set", x |-> s.x, v |-> s.v]>>
         ELSE LET h == HoistArgs(s.v.args, 1, [code |-> <<>>, args |-> <<>>, n |-> 0])
              IN ln \o h.code \o <<[op |-> "call", x |-> s.x, f |-> s.v.f, args |-> h.args]>>
    [] s.k = "loop" ->
         LET body == FlatBlock(s.body, b + 3)  n == Len(body) IN
         ln \o <<[op |-> "linit", id |-> s.id, x |-> s.x], [op |-> "ltest", id |-> s.id, exit |-> b + 5 + n]>>
            \o body \o <<[op |-> "ldec", id |-> s.id], [op |-> "jmp", to |-> b + 2],
                         [op |-> "line", file |-> s.endfile, line |-> s.endline]>>
    [] s.k = "while" ->
         LET body == FlatBlock(s.body, b + 2)  n == Len(body) IN
         ln \o <<[op |-> "wtest", x |-> s.x, exit |-> b + 3 + n]>> \o body
            \o <<[op |-> "jmp", to |-> b + 1], [op |-> "line", file |-> s.endfile, line |-> s.endline]>>
    [] s.k = "goto" -> ln \o <<[op |-> "goto", to |-> s.to]>>
    [] s.k = "if" -> ln \o <<[op |-> "ifeq", x |-> s.x, c |-> s.c, to |-> s.to]>>
    [] s.k = "stop" -> ln \o <<[op |-> "stop"]>>

FlatBlock(ss, b) ==
  IF Len(ss) = 0 THEN <<>>
  ELSE LET h == FlatStmt(ss[1], b) IN h \o FlatBlock(Tail(ss), b + Len(h))

RECURSIVE LabBlock(_, _), LabStmt(_, _)
\* a label names the line marker of its statement: jumping to it is a line event of the label's line
LabStmt(s, b) ==
  LET own == {<<s.labels[i], b>> : i \in DOMAIN s.labels} IN
  CASE s.k = "loop" -> own \cup LabBlock(s.body, b + 3)
    [] s.k = "while" -> own \cup LabBlock(s.body, b + 2)
    [] OTHER -> own
LabBlock(ss, b) ==
  IF Len(ss) = 0 THEN {} ELSE LabStmt(ss[1], b) \cup LabBlock(Tail(ss), b + Len(FlatStmt(ss[1], b)))

NR(a) == Len(Asts[a].routines)
Body(a, r) == IF r = 0 THEN Asts[a].main ELSE Asts[a].routines[r].body
\* flattened code of program a: MkCode(a)[r] for routine r (0 = main).  TLC re-evaluates definitions on every use,
\* so the flattened program is computed once per execution and carried in the variables code / labs.
MkCode(a) == [r \in 0..NR(a) |->
             IF r = 0 THEN FlatBlock(Body(a, 0), 1)
             ELSE FlatBlock(Body(a, r), 1) \o <<[op |-> "line", file |-> Asts[a].routines[r].endfile, line |-> Asts[a].routines[r].endline],
                                                [op |-> "ret"]>>]
MkLabs(a) == [r \in 0..NR(a) |-> LabBlock(Body(a, r), 1)]
\* the definition a call sees: the latest one completed before the caller's own definition (all of them for main)
Callee(a, r, name) == LET cands == {k \in 1..(IF r = 0 THEN NR(a) ELSE r - 1) : Asts[a].routines[k].name = name}
                      IN CHOOSE k \in cands : \A j \in cands : j <= k

VARIABLES a,        \* program under execution
          code, labs, \* its flattened code and label positions (constant during one execution)
          frames,   \* activation stack: [r, pc, env, ctr, it, n0, tgt]
          halted,   \* STOP was executed
          over,     \* a value left the word range: the obligation of C01 ends here (C20 takes over)
          n         \* executed steps
svars == <<a, code, labs, frames, halted, over, n>>
LabelPc(r, l) == (CHOOSE q \in labs[r] : q[1] = l)[2]

Top == frames[Len(frames)]
Get(env, x) == IF x \in DOMAIN env THEN env[x] ELSE 0
Put(env, x, v) == [y \in DOMAIN env \cup {x} |-> IF y = x THEN v ELSE env[y]]
Fits(env, v) == v.k = "inc" => Get(env, v.x) <= MaxWord - v.c
Val(env, v) == CASE v.k = "var" -> Get(env, v.x)
                 [] v.k = "const" -> v.c
                 [] v.k = "inc" -> Get(env, v.x) + v.c
                 [] v.k = "dec" -> IF Get(env, v.x) > v.c THEN Get(env, v.x) - v.c ELSE 0
Finished == Len(frames) = 1 /\ Top.pc > Len(code[0])
Done == halted \/ Finished \/ over
Cur == code[Top.r][Top.pc]
SetTop(f) == frames' = [frames EXCEPT ![Len(frames)] = f]
EmptyEnv == [x \in {} |-> 0]
Frame0(r, env, tgt) == [r |-> r, pc |-> 1, env |-> env, ctr |-> EmptyEnv, it |-> EmptyEnv, n0 |-> EmptyEnv, tgt |-> tgt]

SemInit(q) == a = q /\ code = MkCode(q) /\ labs = MkLabs(q) /\ frames = <<Frame0(0, EmptyEnv, "")>> /\ halted = FALSE /\ over = FALSE /\ n = 0

\* one step of the top activation
Exec ==
  LET f == Top  i == Cur IN
  /\ n' = n + 1 /\ UNCHANGED <<a, code, labs>>
  /\ CASE i.op = "line" -> SetTop([f EXCEPT !.pc = f.pc + 1]) /\ UNCHANGED <<halted, over>>
       [] i.op = "set" -> IF Fits(f.env, i.v)
                          THEN SetTop([f EXCEPT !.pc = f.pc + 1, !.env = Put(f.env, i.x, Val(f.env, i.v))]) /\ UNCHANGED <<halted, over>>
                          ELSE over' = TRUE /\ UNCHANGED <<frames, halted>>
       [] i.op = "call" ->
            IF \A k \in DOMAIN i.args : Fits(f.env, i.args[k])
            THEN LET c == Callee(a, f.r, i.f)  ps == Asts[a].routines[c].params
                     env0 == [x \in {ps[k] : k \in DOMAIN ps} |-> Val(f.env, i.args[CHOOSE k \in DOMAIN ps : ps[k] = x])]
                 IN /\ frames' = Append([frames EXCEPT ![Len(frames)] = [f EXCEPT !.pc = f.pc + 1]], Frame0(c, env0, i.x))
                    /\ UNCHANGED <<halted, over>>
            ELSE over' = TRUE /\ UNCHANGED <<frames, halted>>
       [] i.op = "ret" ->
            LET caller == frames[Len(frames) - 1]  v == Get(f.env, Asts[a].routines[f.r].out)
            IN frames' = Append(SubSeq(frames, 1, Len(frames) - 2), [caller EXCEPT !.env = Put(caller.env, f.tgt, v)])
               /\ UNCHANGED <<halted, over>>
       [] i.op = "linit" -> SetTop([f EXCEPT !.pc = f.pc + 1, !.ctr = Put(f.ctr, i.id, Get(f.env, i.x)),
                                             !.n0 = Put(f.n0, i.id, Get(f.env, i.x)), !.it = Put(f.it, i.id, 0)])
                            /\ UNCHANGED <<halted, over>>
       [] i.op = "ltest" -> SetTop([f EXCEPT !.pc = IF Get(f.ctr, i.id) = 0 THEN i.exit ELSE f.pc + 1]) /\ UNCHANGED <<halted, over>>
       [] i.op = "ldec" -> SetTop([f EXCEPT !.pc = f.pc + 1, !.it = Put(f.it, i.id, Get(f.it, i.id) + 1),
                                            !.ctr = Put(f.ctr, i.id, IF Get(f.ctr, i.id) > 0 THEN Get(f.ctr, i.id) - 1 ELSE 0)])
                           /\ UNCHANGED <<halted, over>>
       [] i.op = "wtest" -> SetTop([f EXCEPT !.pc = IF Get(f.env, i.x) = 0 THEN i.exit ELSE f.pc + 1]) /\ UNCHANGED <<halted, over>>
       [] i.op = "jmp" -> SetTop([f EXCEPT !.pc = i.to]) /\ UNCHANGED <<halted, over>>
       [] i.op = "goto" -> SetTop([f EXCEPT !.pc = LabelPc(f.r, i.to)]) /\ UNCHANGED <<halted, over>>
       [] i.op = "ifeq" -> SetTop([f EXCEPT !.pc = IF Get(f.env, i.x) = i.c THEN LabelPc(f.r, i.to) ELSE f.pc + 1])
                           /\ UNCHANGED <<halted, over>>
       [] i.op = "stop" -> halted' = TRUE /\ UNCHANGED <<frames, over>>

SemStep == ~Done /\ Exec
Init == \E q \in 1..NA : SemInit(q)
Next == SemStep
Spec == Init /\ [][Next]_svars
FairSpec == Spec /\ WF_svars(SemStep)

\* ---------- checked in the model ---------------------------------------------------------------
SemTypeOK == /\ a \in 1..NA /\ Len(frames) >= 1 /\ halted \in BOOLEAN /\ n >= 0
             /\ \A k \in DOMAIN frames : frames[k].r \in 0..NR(a) /\ frames[k].pc >= 1
\* C16: calls only reach earlier definitions, so the depth is bounded by the number of routines plus the root
DepthBound == Len(frames) <= NR(a) + 1
CallsGoDown == \A k \in 2..Len(frames) : frames[k].r >= 1 /\ (frames[k - 1].r = 0 \/ frames[k].r < frames[k - 1].r)
\* C16: in a structured program (no GOTO) a LOOP that exits has run its body exactly bound-at-entry times,
\* whatever the body assigned to the bound variable
LoopCount == (Asts[a].structured /\ ~Done /\ Cur.op = "ltest" /\ Get(Top.ctr, Cur.id) = 0)
                => Get(Top.it, Cur.id) = Get(Top.n0, Cur.id)
\* C16: sources without WHILE and GOTO halt
Terminates == <>Done
=============================================================================
