----------------------------- MODULE TheoExtract -----------------------------
(***************************************************************************)
(* Macro extraction with its error recovery (Theo::extract_macros) - an    *)
(* extension of the specification beyond the listed properties: it is the  *)
(* stage between the scanner and TheoMacro, and it is where C02's          *)
(* "DEFINE cut off by end of file" lives.                                  *)
(*                                                                         *)
(* The extractor is a four-mode machine over the token stream:             *)
(*   S  outside a definition     D  just after DEFINE [PRIO n]             *)
(*   MD inside the pattern       A  inside the body                        *)
(* one action per token.  What is specified: the tokens passed on (the     *)
(* stream without definitions, ending in the single EOF token), the kept   *)
(* definitions (priority, pattern, body, slot positions), and the errors   *)
(* by type and position - including the recovery decisions (a second       *)
(* DEFINE / AS inside a definition is skipped, an empty pattern drops the  *)
(* definition, end of file inside a definition drops it unless its body    *)
(* was reached) and the insertion-index check after extraction.            *)
(* All token streams up to EXLEN tokens over nine token kinds are          *)
(* enumerated; every final state is emitted for the S->I replay.           *)
(***************************************************************************)
EXTENDS Integers, Sequences, FiniteSets, TLC, Json, IOUtils

MaxLen == atoi(IOEnv.EXLEN)
\* token kinds of the enumeration: k = kind, t = text
Tk(k, t) == [k |-> k, t |-> t]
Vocab == {Tk("DEFINE", "DEFINE"), Tk("PRIORITY", "PRIO"), Tk("INT", "5"), Tk("AS", "AS"), Tk("END_DEFINE", "ENDDEF"),
          Tk("ID", "x"), Tk("INSERTION", "$0"), Tk("INSERTION", "$1"), Tk("VALUE_TEMP", "<V>")}
Slots == {"PROG_TEMP", "ARGS_TEMP", "ID_TEMP", "INT_TEMP", "VALUE_TEMP"}
Eof == Tk("T_EOF", "EOF")

VARIABLES toks,     \* the input stream under construction (without the final EOF)
          phase,    \* "grow" while the stream is being chosen, "run" while extracting, "done"
          pos, mode, out, errs, macros, cur
vars == <<toks, phase, pos, mode, out, errs, macros, cur>>

Input == Append(toks, Eof)
N == Len(Input)
\* lookahead as the extractor sees it: positions past the end count as EOF
La == IF pos > N THEN "T_EOF" ELSE Input[pos].k
\* errors are located at the current token, or at the last one when the position is past the end
ErrPos == IF pos > N THEN N ELSE pos
Err(t) == errs' = Append(errs, [t |-> t, at |-> ErrPos])
NewMacro == [prio |-> 0, rule |-> <<>>, repl |-> <<>>]

Init == toks = <<>> /\ phase = "grow" /\ pos = 1 /\ mode = "S" /\ out = <<>> /\ errs = <<>> /\ macros = <<>> /\ cur = <<>>
Grow == /\ phase = "grow" /\ Len(toks) < MaxLen /\ \E v \in Vocab : toks' = Append(toks, v)
        /\ UNCHANGED <<phase, pos, mode, out, errs, macros, cur>>
Start == phase = "grow" /\ phase' = "run" /\ UNCHANGED <<toks, pos, mode, out, errs, macros, cur>>

Adv == pos' = pos + 1
\* ---- mode S ------------------------------------------------------------------------------------------
SEof == /\ mode = "S" /\ La = "T_EOF" /\ out' = Append(out, Input[ErrPos]) /\ Adv /\ phase' = "done"
        /\ UNCHANGED <<toks, mode, errs, macros, cur>>
\* DEFINE [PRIORITY INT]: the optional priority is consumed here (two or three tokens in one step, as the code does)
SDefine == /\ mode = "S" /\ La = "DEFINE" /\ mode' = "D"
           /\ LET p1 == pos + 1
                  la1 == IF p1 > N THEN "T_EOF" ELSE Input[p1].k
                  la2 == IF p1 + 1 > N THEN "T_EOF" ELSE Input[p1 + 1].k
              IN IF la1 # "PRIORITY" THEN pos' = p1 /\ cur' = <<NewMacro>> /\ UNCHANGED errs
                 ELSE IF la2 = "INT" THEN pos' = p1 + 2 /\ cur' = <<[NewMacro EXCEPT !.prio = Input[p1 + 1].t]>> /\ UNCHANGED errs
                 \* PRIORITY not followed by an integer: reported, the offending token is skipped
                 ELSE pos' = p1 + 2 /\ cur' = <<NewMacro>>
                      /\ errs' = Append(errs, [t |-> "MACRO_EXTRACT_EXPECT", at |-> IF p1 + 1 > N THEN N ELSE p1 + 1])
           /\ UNCHANGED <<toks, phase, out, macros>>
SCopy == /\ mode = "S" /\ La \notin {"T_EOF", "DEFINE"} /\ out' = Append(out, Input[pos]) /\ Adv
         /\ UNCHANGED <<toks, phase, mode, errs, macros, cur>>
\* ---- modes D / MD: the pattern ------------------------------------------------------------------------
At(i) == [k |-> Input[i].k, t |-> Input[i].t, i |-> i]
PushRule == cur' = <<[cur[1] EXCEPT !.rule = Append(@, At(pos))]>>
\* end of file inside the pattern: AS and END DEFINE are both reported missing, the definition is dropped
PatEof == /\ mode \in {"D", "MD"} /\ La = "T_EOF"
          /\ errs' = errs \o <<[t |-> "MACRO_EXTRACT_EXPECT", at |-> ErrPos], [t |-> "MACRO_EXTRACT_EXPECT", at |-> N]>>
          /\ pos' = pos + 2 /\ mode' = "S" /\ cur' = <<>> /\ UNCHANGED <<toks, phase, out, macros>>
DEmpty == /\ mode = "D" /\ La = "AS" /\ Err("MACRO_EXTRACT_EMPTY_DEFINE") /\ Adv /\ mode' = "Adrop"
          /\ UNCHANGED <<toks, phase, out, macros, cur>>
PatDefine == /\ mode \in {"D", "MD"} /\ La = "DEFINE" /\ Err("MACRO_EXTRACT_NESTED") /\ Adv /\ mode' = "MD"
             /\ UNCHANGED <<toks, phase, out, macros, cur>>
PatTok == /\ mode \in {"D", "MD"} /\ La \notin {"T_EOF", "AS", "DEFINE"} /\ PushRule /\ Adv /\ mode' = "MD"
          /\ UNCHANGED <<toks, phase, out, errs, macros>>
MDAs == /\ mode = "MD" /\ La = "AS" /\ Adv /\ mode' = "A" /\ UNCHANGED <<toks, phase, out, errs, macros, cur>>
\* ---- mode A: the body ("Adrop": the body of a definition that will be dropped) -----------------------------
InBody == mode \in {"A", "Adrop"}
Keep == IF mode = "A" THEN macros' = Append(macros, cur[1]) ELSE UNCHANGED macros
AEof == /\ InBody /\ La = "T_EOF" /\ Err("MACRO_EXTRACT_EXPECT") /\ Adv /\ mode' = "S" /\ Keep /\ cur' = <<>>
        /\ UNCHANGED <<toks, phase, out>>
AEnd == /\ InBody /\ La = "END_DEFINE" /\ Adv /\ mode' = "S" /\ Keep /\ cur' = <<>> /\ UNCHANGED <<toks, phase, out, errs>>
ANested == /\ InBody /\ La \in {"DEFINE", "AS"} /\ Err("MACRO_EXTRACT_NESTED") /\ Adv
           /\ UNCHANGED <<toks, phase, mode, out, macros, cur>>
ATok == /\ InBody /\ La \notin {"T_EOF", "END_DEFINE", "DEFINE", "AS"}
        /\ cur' = <<[cur[1] EXCEPT !.repl = Append(@, At(pos))]>> /\ Adv
        /\ UNCHANGED <<toks, phase, mode, out, errs, macros>>

Step == phase = "run" /\ (SEof \/ SDefine \/ SCopy \/ PatEof \/ DEmpty \/ PatDefine \/ PatTok \/ MDAs \/ AEof \/ AEnd \/ ANested \/ ATok)

\* ---- after extraction: every insertion $n of a kept definition must name one of its slots ---------------------
NSlots(m) == Cardinality({i \in DOMAIN m.rule : m.rule[i].k \in Slots})
BadInsertions(m) == {j \in DOMAIN m.repl : m.repl[j].k = "INSERTION" /\
                        ((m.repl[j].t = "$1" /\ NSlots(m) < 2) \/ (m.repl[j].t = "$0" /\ NSlots(m) < 1))}
RECURSIVE RangeErrs(_, _)
\* the insertion check runs after the extraction, over the kept definitions in order
RangeErrs(ms, i) == IF i > Len(ms) THEN <<>>
                    ELSE LET m == ms[i]
                             RECURSIVE Of(_)
                             Of(j) == IF j > Len(m.repl) THEN <<>>
                                      ELSE (IF j \in BadInsertions(m) THEN <<[t |-> "RANGE", at |-> m.repl[j].i]>> ELSE <<>>) \o Of(j + 1)
                         IN Of(1) \o RangeErrs(ms, i + 1)
Result == [toks |-> [i \in DOMAIN toks |-> toks[i].t],
           out |-> [i \in DOMAIN out |-> out[i].t],
           errs |-> errs \o RangeErrs(macros, 1),
           macros |-> [i \in DOMAIN macros |->
                         [prio |-> macros[i].prio,
                          rule |-> [j \in DOMAIN macros[i].rule |-> macros[i].rule[j].t],
                          repl |-> [j \in DOMAIN macros[i].repl |-> IF j \in BadInsertions(macros[i]) THEN "error" ELSE macros[i].repl[j].t],
                          nbad |-> Cardinality(BadInsertions(macros[i]))]]]
Finish == phase = "done" /\ phase' = "emitted" /\ PrintT("@@" \o ToJson(Result)) /\ UNCHANGED <<toks, pos, mode, out, errs, macros, cur>>
Next == Grow \/ Start \/ Step \/ Finish
Spec == Init /\ [][Next]_vars /\ WF_vars(Step)

\* ---- checked in the model ---------------------------------------------------------------------------------
\* extraction consumes at least one token per step and ends; the output ends in exactly one EOF token; no definition token survives
Terminates == <>(phase \in {"grow", "emitted"})
OutOK == phase = "done" => /\ out[Len(out)].k = "T_EOF" /\ \A i \in 1..(Len(out) - 1) : out[i].k # "T_EOF"
                           /\ \A i \in DOMAIN out : out[i].k # "DEFINE"
KeptOK == \A i \in DOMAIN macros : Len(macros[i].rule) >= 0
PosBound == pos <= N + 6
=============================================================================
