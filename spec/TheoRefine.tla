------------------------------ MODULE TheoRefine ------------------------------
(***************************************************************************)
(* Model leg of C01 and C07: the IDEAL bytecode machine (TheoVMCore's      *)
(* instruction semantics, no debugger, no real VM) running the REAL        *)
(* compiler's output simulates the reference semantics TheoSem of the      *)
(* source, in lock step:                                                   *)
(*  - one-statement-per-line sources ("canon"): every breakpoint site the  *)
(*    machine passes is TheoSem's current line event (same file and line)  *)
(*    and, there, every user variable of every live activation has the     *)
(*    reference value when read through the real stack maps;               *)
(*  - every source: the machine reaches HALT exactly when the reference    *)
(*    run is over, with the reference values.                              *)
(* The refinement mapping is the real stack_maps / line_info.  A failure   *)
(* here blames the compiler (the real VM is not involved); a rejected real *)
(* trace with this leg green blames the VM.                                *)
(***************************************************************************)
EXTENDS TheoSem, TheoVMCore

Progs == JsonDeserialize(IOEnv.PROGS)      \* Progs[k]: the real compiler's output for Asts[k]
StepLimit == atoi(IOEnv.REFLIMIT)

VARIABLES vcode, vops, vmaps, vsite,   \* the program under execution (constant along a behaviour; TLC re-evaluates definitions)
          vip, vdata, vstack,          \* the ideal machine
          canon                        \* this source is laid out one statement per line: sites are compared
rvars == <<svars, vcode, vops, vmaps, vsite, vip, vdata, vstack, canon>>

SiteTab(q) == [i \in {Progs[q].sites[k].i : k \in DOMAIN Progs[q].sites} |->
                 LET k == CHOOSE k \in DOMAIN Progs[q].sites : Progs[q].sites[k].i = i IN <<Progs[q].sites[k].file, Progs[q].sites[k].line>>]
RInit == \E q \in 1..NA :
           /\ SemInit(q)
           /\ vcode = Progs[q].code /\ vops = [k \in 1..Len(Progs[q].code) |-> Progs[q].code[k].op]
           /\ vmaps = Progs[q].maps /\ vsite = SiteTab(q) /\ canon = Asts[q].canon
           /\ vip = 0 /\ vdata = <<>> /\ vstack = <<>>

VOp == vops[vip + 1]
AtSite == VOp = "PB"
AtHalt == VOp = "HALT"
\* the reference run waits at a line event (canonical sources) or is over
\* (IF, not a disjunction: inside an action TLC explores every disjunct, and Cur is undefined once the run is over)
SemWaiting == IF Done THEN TRUE ELSE (canon /\ Cur.op = "line")
VStep == StepP(vcode, vops, vip, vdata, vstack, FALSE, AddWord)

\* value of user variable x in activation k, read through the real stack map (the highest register wins for a repeated name)
HasVar(k, x) == \E e \in DOMAIN vmaps[vstack[k].map + 1].regs : vmaps[vstack[k].map + 1].regs[e].name = x
VarVal(k, x) == LET regs == vmaps[vstack[k].map + 1].regs
                    e == CHOOSE e \in DOMAIN regs : regs[e].name = x /\ \A e2 \in DOMAIN regs : regs[e2].name = x => regs[e2].r <= regs[e].r
                IN vdata[vstack[k].base + regs[e].r + 1]
UVarsOf(r) == IF r = 0 THEN {Asts[a].mainvars[i] : i \in DOMAIN Asts[a].mainvars}
              ELSE {Asts[a].routines[r].vars[i] : i \in DOMAIN Asts[a].routines[r].vars}
ViewsOK == /\ Len(vstack) = Len(frames)
           /\ \A k \in DOMAIN frames : \A x \in UVarsOf(frames[k].r) : HasVar(k, x) /\ VarVal(k, x) = Get(frames[k].env, x)

SemSilent == ~SemWaiting /\ Exec /\ UNCHANGED <<vcode, vops, vmaps, vsite, vip, vdata, vstack, canon>>
\* the machine executes everything that is not a compared site
VMSilent == /\ SemWaiting /\ ~AtHalt /\ (AtSite => (~canon \/ over)) /\ VStep.def
            /\ vip' = VStep.ip /\ vdata' = VStep.data /\ vstack' = VStep.stack
            /\ UNCHANGED <<svars, vcode, vops, vmaps, vsite, canon>>
\* a compared site: both sides move on together
Sync == /\ canon /\ ~over /\ SemWaiting /\ ~Done /\ AtSite
        /\ Exec /\ vip' = vip + 1 /\ UNCHANGED <<vcode, vops, vmaps, vsite, vdata, vstack, canon>>
RNext == SemSilent \/ VMSilent \/ Sync
RSpec == RInit /\ [][RNext]_rvars

\* ---- the simulation relation, as an invariant --------------------------------------------------------------
RefineOK ==
  over \/
  /\ (SemWaiting /\ ~AtHalt => VStep.def)                                        \* the machine is never stuck (C03 on this path)
  /\ (canon /\ SemWaiting /\ AtSite) =>                                          \* a site is a line event of the same line ...
        /\ ~Done
        /\ vip \in DOMAIN vsite /\ vsite[vip] = <<Cur.file, Cur.line>>
        /\ ViewsOK                                                               \* ... with the reference values (C07)
  /\ (SemWaiting /\ AtHalt) => (Done /\ ViewsOK)                                 \* the end is the reference run's end (C01)
Bounded == n <= StepLimit
=============================================================================
